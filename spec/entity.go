//go:build verif

package libinjection

// Reference decoder for numeric character references (C19), written from the HTML "character reference" rules
// as upstream libinjection applies them: decimal &#D..., hexadecimal &#xH... / &#XH..., optional ';',
// values above 0x1000FF fall back to a literal ampersand. No table is shared with the implementation.

func specHexVal(c byte) int {
	switch {
	case c >= '0' && c <= '9':
		return int(c - '0')
	case c >= 'a' && c <= 'f':
		return int(c-'a') + 10
	case c >= 'A' && c <= 'F':
		return int(c-'A') + 10
	}
	return -1
}

func specDecVal(c byte) int {
	if c >= '0' && c <= '9' {
		return int(c - '0')
	}
	return -1
}

// specDecode returns (value, bytes consumed) for the character or reference at the start of s; (-1, 0) for "".
func specDecode(s string) (int, int) {
	if len(s) == 0 {
		return -1, 0
	}
	if s[0] != '&' {
		return int(s[0]), 1
	}
	if len(s) < 3 || s[1] != '#' {
		return '&', 1
	}
	base, i := 10, 2
	if s[2] == 'x' || s[2] == 'X' {
		base, i = 16, 3
	}
	val, digits := 0, 0
	for i < len(s) {
		d := -1
		if base == 16 {
			d = specHexVal(s[i])
		} else {
			d = specDecVal(s[i])
		}
		if d < 0 {
			break
		}
		val = val*base + d
		digits++
		if val > 0x1000FF {
			return '&', 1
		}
		i++
	}
	if digits == 0 {
		return '&', 1
	}
	if i < len(s) && s[i] == ';' {
		i++
	}
	return val, i
}
