//go:build verif

package libinjection

// Reference oracle for SQL string literals (C18), written from the upstream algorithm description:
// byte-at-a-time, explicit indices, no call into the repository's lexers or helpers.

// specQuoted scans a quoted string whose content starts at `start` (the byte after a real opening quote, or 0
// for a virtual one) with delimiter d. It returns (content length, closed, resume offset).
// A delimiter terminates the string unless it is preceded by an odd number of backslashes (counted back to the
// start of the content) or is immediately followed by the same delimiter (then both are skipped).
func specQuoted(s string, start int, d byte) (int, bool, int) {
	i := start
	for i < len(s) {
		if s[i] != d {
			i++
			continue
		}
		k := 0
		for j := i - 1; j >= start && s[j] == '\\'; j-- {
			k++
		}
		if k%2 == 1 {
			i++
			continue
		}
		if i+1 < len(s) && s[i+1] == d {
			i += 2
			continue
		}
		return i - start, true, i + 1
	}
	return len(s) - start, false, len(s)
}

// specQClose maps an Oracle q-quote opening delimiter to its closing delimiter.
func specQClose(b byte) byte {
	switch b {
	case '(':
		return ')'
	case '[':
		return ']'
	case '{':
		return '}'
	case '<':
		return '>'
	}
	return b
}

// specQString: content starts at `start` (after q'X); ends at the first close(X) immediately followed by a quote.
func specQString(s string, start int, open byte) (int, bool, int) {
	c := specQClose(open)
	for i := start; i+1 < len(s); i++ {
		if s[i] == c && s[i+1] == '\'' {
			return i - start, true, i + 2
		}
	}
	return len(s) - start, false, len(s)
}

// specDollar: s[tagStart:tagEnd] is the complete opening tag including both '$' ("$$" or "$abc$");
// the content ends at the first repetition of the tag.
func specDollar(s string, tagStart, tagEnd int) (int, bool, int) {
	tl := tagEnd - tagStart
	for i := tagEnd; i+tl <= len(s); i++ {
		j := 0
		for j < tl && s[i+j] == s[tagStart+j] {
			j++
		}
		if j == tl {
			return i - tagEnd, true, i + tl
		}
	}
	return len(s) - tagEnd, false, len(s)
}
