//go:build verif

package libinjection

// Reference specification of libinjection's folding, fingerprinting and decision (C06), written from the
// upstream algorithm as a rewrite system over a token window. Helpers are class-set predicates; nothing
// from the repository's folder is called.

func specIn(c byte, set string) bool {
	for i := 0; i < len(set); i++ {
		if set[i] == c {
			return true
		}
	}
	return false
}

func specEqFold(t specTok, word string) bool { return vUpperASCII(t.val) == word }

func specUnary(t specTok) bool {
	if t.cls != 'o' {
		return false
	}
	switch t.len {
	case 1:
		return specIn(t.val[0], "+-!~")
	case 2:
		return t.val == "!!"
	case 3:
		return specEqFold(t, "NOT")
	}
	return false
}

func specArith(t specTok) bool {
	return t.cls == 'o' && t.len == 1 && specIn(t.val[0], "*/+-%")
}

// specMerge: two adjacent word-like tokens that together spell a table phrase become one token of the phrase's class.
func specMerge(a *specTok, b specTok) bool {
	if !specIn(a.cls, "knoUfEtT") {
		return false
	}
	if !specIn(b.cls, "knoUfEtT&") {
		return false
	}
	if a.len+b.len+1 > 32 {
		return false
	}
	phrase := a.val + " " + b.val
	c := specKW(phrase)
	if c == 0 {
		return false
	}
	l := len(phrase)
	if l > specClip {
		l = specClip
	}
	a.cls, a.len, a.val = c, l, phrase[:l]
	return true
}

type specFoldResult struct {
	toks  []specTok // folded tokens (at most 5)
	ntok  int       // tokens produced by the scanner
	ddx   int
	hash  int
	folds int
}

const specMaxTok = 5

// specFold runs the scanner over s in the given mode and folds the token stream.
func specFold(s string, flags int) specFoldResult {
	l := specNewLex(s, flags)
	var v [8]specTok
	pos, left := 0, 0
	more := true
	var lastComment specTok
	res := specFoldResult{}

	fetch := func(i int) bool {
		t, ok := specStep(l)
		v[i] = t
		return ok
	}
	// skip leading comments, left parens, SQL types and unary operators
	for more {
		more = fetch(0)
		if !(v[0].cls == 'c' || v[0].cls == '(' || v[0].cls == 't' || specUnary(v[0])) {
			break
		}
	}
	done := func(n int) specFoldResult {
		res.toks = nil
		for i := 0; i < n; i++ {
			res.toks = append(res.toks, v[i])
		}
		res.ntok, res.ddx, res.hash = l.ntok, l.ddx, l.hash
		return res
	}
	if !more {
		return done(0)
	}
	pos = 1
	for {
		if pos >= specMaxTok {
			a, b, c, d, e := v[0].cls, v[1].cls, v[2].cls, v[3].cls, v[4].cls
			special := (a == '1' && (b == 'o' || b == ',') && c == '(' && d == '1' && e == ')') ||
				(a == 'n' && b == 'o' && c == '(' && (d == 'n' || d == '1') && e == ')') ||
				(a == '1' && b == ')' && c == ',' && d == '(' && e == '1') ||
				(a == 'n' && b == ')' && c == 'o' && d == '(' && e == 'n')
			if special {
				if pos > specMaxTok {
					v[1] = v[5]
					pos, left = 2, 0
				} else {
					pos, left = 1, 0
				}
			}
		}
		if !more || left >= specMaxTok {
			left = pos
			break
		}
		for more && pos <= specMaxTok && pos-left < 2 {
			more = fetch(pos)
			if more {
				if v[pos].cls == 'c' {
					lastComment = v[pos]
				} else {
					lastComment.cls = 0
					pos++
				}
			}
		}
		if pos-left < 2 {
			left = pos
			continue
		}
		a, b := &v[left], &v[left+1]
		// ---- two-token rules
		if a.cls == 's' && b.cls == 's' {
			pos--
			res.folds++
			continue
		}
		if a.cls == ';' && b.cls == ';' {
			pos--
			res.folds++
			continue
		}
		if (a.cls == 'o' || a.cls == '&') && (specUnary(*b) || b.cls == 't') {
			pos--
			res.folds++
			left = 0
			continue
		}
		if a.cls == '(' && specUnary(*b) {
			pos--
			res.folds++
			if left > 0 {
				left--
			}
			continue
		}
		if specMerge(a, *b) {
			pos--
			res.folds++
			if left > 0 {
				left--
			}
			continue
		}
		if a.cls == ';' && b.cls == 'f' && vUpperASCII(b.val[:2]) == "IF" {
			b.cls = 'T'
			continue
		}
		if (a.cls == 'n' || a.cls == 'v') && b.cls == '(' &&
			(specEqFold(*a, "USER_ID") || specEqFold(*a, "USER_NAME") || specEqFold(*a, "DATABASE") || specEqFold(*a, "PASSWORD") ||
				specEqFold(*a, "USER") || specEqFold(*a, "CURRENT_USER") || specEqFold(*a, "CURRENT_DATE") || specEqFold(*a, "CURRENT_TIME") ||
				specEqFold(*a, "CURRENT_TIMESTAMP") || specEqFold(*a, "LOCALTIME") || specEqFold(*a, "LOCALTIMESTAMP")) {
			a.cls = 'f'
			continue
		}
		if a.cls == 'k' && (specEqFold(*a, "IN") || specEqFold(*a, "NOT IN")) {
			if b.cls == '(' {
				a.cls = 'o'
			} else {
				a.cls = 'n'
			}
			continue
		}
		fell := false
		if a.cls == 'o' && (specEqFold(*a, "LIKE") || specEqFold(*a, "NOT LIKE")) {
			if b.cls == '(' {
				a.cls = 'f'
			}
			fell = true
		} else if a.cls == 't' && specIn(b.cls, "n1t(fvs") {
			*a = *b
			pos--
			res.folds++
			left = 0
			continue
		} else if a.cls == 'A' && b.cls == 'n' {
			if vIndexByte(b.val, '_') != -1 {
				b.cls = 't'
				left = 0
			}
			fell = true
		} else if a.cls == '\\' {
			if specArith(*b) {
				a.cls = '1'
			} else {
				*a = *b
				pos--
				res.folds++
			}
			left = 0
			continue
		} else if a.cls == '(' && b.cls == '(' {
			pos--
			left = 0
			res.folds++
			continue
		} else if a.cls == ')' && b.cls == ')' {
			pos--
			left = 0
			res.folds++
			continue
		} else if a.cls == '{' && b.cls == 'n' {
			if b.len == 0 {
				b.cls = 'X'
				return done(left + 2)
			}
			left = 0
			pos -= 2
			res.folds += 2
			continue
		} else if b.cls == '}' {
			pos--
			left = 0
			res.folds++
			continue
		}
		_ = fell
		// ---- three-token rules
		for more && pos <= specMaxTok && pos-left < 3 {
			more = fetch(pos)
			if more {
				if v[pos].cls == 'c' {
					lastComment = v[pos]
				} else {
					lastComment.cls = 0
					pos++
				}
			}
		}
		if pos-left < 3 {
			left = pos
			continue
		}
		a, b = &v[left], &v[left+1]
		c := &v[left+2]
		switch {
		case a.cls == '1' && b.cls == 'o' && c.cls == '1':
			pos -= 2
			left = 0
			continue
		case a.cls == 'o' && b.cls != '(' && c.cls == 'o':
			pos -= 2
			left = 0
			continue
		case a.cls == '&' && c.cls == '&':
			pos -= 2
			left = 0
			continue
		case a.cls == 'v' && b.cls == 'o' && specIn(c.cls, "v1n"):
			pos -= 2
			left = 0
			continue
		case specIn(a.cls, "n1") && b.cls == 'o' && specIn(c.cls, "1n"):
			pos -= 2
			left = 0
			continue
		case specIn(a.cls, "n1vs") && b.cls == 'o' && b.val == "::" && c.cls == 't':
			pos -= 2
			left = 0
			res.folds += 2
			continue
		case specIn(a.cls, "n1sv") && b.cls == ',' && specIn(c.cls, "1nsv"):
			pos -= 2
			left = 0
			continue
		case specIn(a.cls, "EB,") && specUnary(*b) && c.cls == '(':
			*b = *c
			pos--
			left = 0
			continue
		case specIn(a.cls, "kEB") && specUnary(*b) && specIn(c.cls, "1nvsf"):
			*b = *c
			pos--
			left = 0
			continue
		case a.cls == ',' && specUnary(*b) && specIn(c.cls, "1nvs"):
			*b = *c
			left = 0
			pos -= 3
			continue
		case a.cls == ',' && specUnary(*b) && c.cls == 'f':
			*b = *c
			pos--
			left = 0
			continue
		case a.cls == 'n' && b.cls == '.' && c.cls == 'n':
			pos -= 2
			left = 0
			continue
		case a.cls == 'E' && b.cls == '.' && c.cls == 'n':
			*b = *c
			pos--
			left = 0
			continue
		case a.cls == 'f' && b.cls == '(' && c.cls != ')':
			if specEqFold(*a, "USER") {
				a.cls = 'n'
			}
		}
		left++
	}
	if left < specMaxTok && lastComment.cls == 'c' {
		v[left] = lastComment
		left++
	}
	if left > specMaxTok {
		left = specMaxTok
	}
	return done(left)
}

// specFingerprint: the class string of the folded tokens; an evil token collapses it to "X"; an unterminated
// empty back-tick word in last position of a fingerprint longer than two is a comment.
func specFingerprint(r *specFoldResult) string {
	n := len(r.toks)
	if n > 2 {
		t := &r.toks[n-1]
		if t.cls == 'n' && t.open == '`' && t.len == 0 && t.close == 0 {
			t.cls = 'c'
		}
	}
	fp := make([]byte, 0, 5)
	for i := 0; i < n; i++ {
		if r.toks[i].cls == 'X' {
			r.toks = []specTok{{cls: 'X', val: "X"}}
			return "X"
		}
		fp = append(fp, r.toks[i].cls)
	}
	return string(fp)
}

func specBlacklisted(fp string) bool {
	if len(fp) < 1 {
		return false
	}
	return sqlKeywords[vUpperASCII("0"+fp)] == 'F'
}

// specNotWhitelisted: the false-positive filters applied to a blacklisted fingerprint.
func specNotWhitelisted(s string, fp string, r *specFoldResult) bool {
	n := len(fp)
	if n > 1 && fp[n-1] == 'c' && specFirst(s, "sp_password") >= 0 {
		return true
	}
	t := r.toks
	switch n {
	case 2:
		if fp[1] == 'U' {
			return r.ntok != 2
		}
		if t[1].val[0] == '#' {
			return false
		}
		if t[0].cls == 'n' && t[1].cls == 'c' && t[1].val[0] != '/' {
			return false
		}
		if t[0].cls == '1' && t[1].cls == 'c' && t[1].val[0] != '/' {
			return true
		}
		if t[0].cls == '1' && t[1].cls == 'c' {
			if r.ntok > 2 {
				return true
			}
			ch := s[t[0].len]
			if ch <= 32 {
				return true
			}
			if ch == '/' && s[t[0].len+1] == '*' {
				return true
			}
			if ch == '-' && s[t[0].len+1] == '-' {
				return true
			}
			return false
		}
		if t[1].len > 2 && t[1].val[0] == '-' {
			return false
		}
	case 3:
		if fp == "sos" || fp == "s&s" {
			if t[0].open == 0 && t[2].close == 0 && t[0].close == t[2].open {
				return true
			}
			return false
		}
		if fp == "s&n" || fp == "n&1" || fp == "1&1" || fp == "1&v" || fp == "1&s" {
			if r.ntok == 3 {
				return false
			}
		}
		if t[1].cls == 'k' && (t[1].len < 5 || vUpperASCII(t[1].val[:4]) != "INTO") {
			return false
		}
	}
	return true
}

// specContext: one parsing context on fresh state: (fingerprint, is-SQLi, saw MySQL-only comment syntax).
func specContext(s string, flags int) (string, bool, bool, specFoldResult) {
	r := specFold(s, flags)
	fp := specFingerprint(&r)
	ok := specBlacklisted(fp) && specNotWhitelisted(s, fp, &r)
	return fp, ok, r.ddx != 0 || r.hash != 0, r
}

// specIsSQLi: the documented cascade of contexts.
func specIsSQLi(s string) (bool, string) {
	if len(s) == 0 {
		return false, ""
	}
	fp, ok, re, _ := specContext(s, sqliFlagQuoteNone|sqliFlagSQLAnsi)
	if ok {
		return true, fp
	}
	if re {
		fp, ok, _, _ = specContext(s, sqliFlagQuoteNone|sqliFlagSQLMysql)
		if ok {
			return true, fp
		}
	}
	if specFirst(s, "'") >= 0 {
		fp, ok, re, _ = specContext(s, sqliFlagQuoteSingle|sqliFlagSQLAnsi)
		if ok {
			return true, fp
		}
		if re {
			fp, ok, _, _ = specContext(s, sqliFlagQuoteSingle|sqliFlagSQLMysql)
			if ok {
				return true, fp
			}
		}
	}
	if specFirst(s, "\"") >= 0 {
		fp, ok, _, _ = specContext(s, sqliFlagQuoteDouble|sqliFlagSQLMysql)
		if ok {
			return true, fp
		}
	}
	return false, ""
}
