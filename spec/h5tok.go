//go:build verif

package libinjection

// Reference specification of libinjection's HTML5 tokenizer and XSS classifier (C07), written from the upstream
// state machine as one explicit step function over (state, pos, isClose) without any state-to-state calls,
// and from the classification rules over the project's own black lists. Case folding is ASCII-only.

const (
	shData = iota
	shTagOpen
	shEndTagOpen
	shTagName
	shTagNameClose
	shSelfClosing
	shBeforeAttrName
	shAttrName
	shAfterAttrName
	shBeforeAttrValue
	shValueNoQuote
	shValueDouble
	shValueSingle
	shValueBack
	shAfterValueQuoted
	shMarkupDecl
	shBogusComment
	shBogusComment2
	shComment
	shCData
	shDoctype
	shEOF
)

type specH5 struct {
	s       string
	pos     int
	state   int
	isClose bool
	// current token
	ttype  int
	tstart int
	tlen   int
}

func specH5Init(s string, ctx int) *specH5 {
	h := &specH5{s: s}
	switch ctx {
	case html5FlagsDataState:
		h.state = shData
	case html5FlagsValueNoQuote:
		h.state = shBeforeAttrName
	case html5FlagsValueSingleQuote:
		h.state = shValueSingle
	case html5FlagsValueDoubleQuote:
		h.state = shValueDouble
	case html5FlagsValueBackQuote:
		h.state = shValueBack
	}
	return h
}

func specH5White(c byte) bool {
	return c == ' ' || c == '\t' || c == '\n' || c == '\v' || c == '\f' || c == '\r'
}

func specAlpha(c byte) bool { return (c >= 'a' && c <= 'z') || (c >= 'A' && c <= 'Z') }

func (h *specH5) emit(t, start, n int) bool {
	h.ttype, h.tstart, h.tlen = t, start, n
	return true
}

// skipWS advances over HTML whitespace and NUL; returns the byte found or -1 at end of input.
func (h *specH5) skipWS() int {
	n := len(h.s)
	for h.pos < n {
		c := h.s[h.pos]
		if c == 0 || specH5White(c) {
			h.pos++
			continue
		}
		return int(c)
	}
	return -1
}

func specIndexFrom(s string, from int, c byte) int {
	for i := from; i < len(s); i++ {
		if s[i] == c {
			return i
		}
	}
	return -1
}

// specH5Next produces the next token; false when the tokenizer stops.
func specH5Next(h *specH5) bool {
	s := h.s
	n := len(s)
	for {
		switch h.state {
		case shEOF:
			return false

		case shData:
			i := specIndexFrom(s, h.pos, '<')
			if i < 0 {
				start := h.pos
				h.state = shEOF
				h.emit(html5TypeDataText, start, n-start)
				return n-start != 0
			}
			start := h.pos
			h.pos = i + 1
			h.state = shTagOpen
			if i-start == 0 {
				h.emit(html5TypeDataText, start, 0)
				continue
			}
			return h.emit(html5TypeDataText, start, i-start)

		case shTagOpen:
			if h.pos >= n {
				return false
			}
			c := s[h.pos]
			switch {
			case c == '!':
				h.pos++
				h.state = shMarkupDecl
			case c == '/':
				h.pos++
				h.isClose = true
				h.state = shEndTagOpen
			case c == '?':
				h.pos++
				h.state = shBogusComment
			case c == '%':
				h.pos++
				h.state = shBogusComment2
			case specAlpha(c) || c == 0:
				h.state = shTagName
			default:
				if h.pos == 0 {
					h.state = shData
					continue
				}
				h.state = shData
				return h.emit(html5TypeDataText, h.pos-1, 1)
			}

		case shEndTagOpen:
			if h.pos >= n {
				return false
			}
			c := s[h.pos]
			if c == '>' {
				h.state = shData
			} else if specAlpha(c) {
				h.state = shTagName
			} else {
				h.isClose = false
				h.state = shBogusComment
			}

		case shTagName:
			start := h.pos
			i := start
			for i < n {
				c := s[i]
				if c == 0 {
					i++
					continue
				}
				if specH5White(c) {
					h.pos = i + 1
					h.state = shBeforeAttrName
					return h.emit(html5TypeTagNameOpen, start, i-start)
				}
				if c == '/' {
					h.pos = i + 1
					h.state = shSelfClosing
					return h.emit(html5TypeTagNameOpen, start, i-start)
				}
				if c == '>' {
					if h.isClose {
						h.pos = i + 1
						h.isClose = false
						h.state = shData
						return h.emit(html5TypeTagClose, start, i-start)
					}
					h.pos = i
					h.state = shTagNameClose
					return h.emit(html5TypeTagNameOpen, start, i-start)
				}
				i++
			}
			h.state = shEOF
			return h.emit(html5TypeTagNameOpen, start, n-start)

		case shTagNameClose:
			h.isClose = false
			start := h.pos
			h.pos++
			if h.pos < n {
				h.state = shData
			} else {
				h.state = shEOF
			}
			return h.emit(html5TypeTagNameClose, start, 1)

		case shSelfClosing:
			if h.pos >= n {
				return false
			}
			if s[h.pos] == '>' {
				start := h.pos - 1
				h.pos++
				h.state = shData
				return h.emit(html5TypeTagNameSelfClose, start, 2)
			}
			h.state = shBeforeAttrName

		case shBeforeAttrName:
			c := h.skipWS()
			switch c {
			case -1:
				return false
			case '/':
				h.pos++
				h.state = shSelfClosing
			case '>':
				start := h.pos
				h.pos++
				h.state = shData
				return h.emit(html5TypeTagNameClose, start, 1)
			default:
				h.state = shAttrName
			}

		case shAttrName:
			start := h.pos
			i := start + 1
			for i < n {
				c := s[i]
				if specH5White(c) {
					h.pos = i + 1
					h.state = shAfterAttrName
					return h.emit(html5TypeAttrName, start, i-start)
				}
				if c == '/' {
					h.pos = i + 1
					h.state = shSelfClosing
					return h.emit(html5TypeAttrName, start, i-start)
				}
				if c == '=' {
					h.pos = i + 1
					h.state = shBeforeAttrValue
					return h.emit(html5TypeAttrName, start, i-start)
				}
				if c == '>' {
					h.pos = i
					h.state = shTagNameClose
					return h.emit(html5TypeAttrName, start, i-start)
				}
				i++
			}
			h.pos = n
			h.state = shEOF
			return h.emit(html5TypeAttrName, start, n-start)

		case shAfterAttrName:
			c := h.skipWS()
			switch c {
			case -1:
				return false
			case '/':
				h.pos++
				h.state = shSelfClosing
			case '=':
				h.pos++
				h.state = shBeforeAttrValue
			case '>':
				h.state = shTagNameClose
			default:
				h.state = shAttrName
			}

		case shBeforeAttrValue:
			c := h.skipWS()
			switch c {
			case -1:
				h.state = shEOF
				return false
			case '"':
				h.state = shValueDouble
			case '\'':
				h.state = shValueSingle
			case '`':
				h.state = shValueBack
			default:
				h.state = shValueNoQuote
			}

		case shValueNoQuote:
			start := h.pos
			i := start
			for i < n {
				c := s[i]
				if specH5White(c) {
					h.pos = i + 1
					h.state = shBeforeAttrName
					return h.emit(html5TypeAttrValue, start, i-start)
				}
				if c == '>' {
					h.pos = i
					h.state = shTagNameClose
					return h.emit(html5TypeAttrValue, start, i-start)
				}
				i++
			}
			h.state = shEOF
			return h.emit(html5TypeAttrValue, start, n-start)

		case shValueDouble, shValueSingle, shValueBack:
			q := byte('"')
			if h.state == shValueSingle {
				q = '\''
			} else if h.state == shValueBack {
				q = '`'
			}
			// the opening quote is skipped unless the tokenizer was started inside the value (offset 0)
			if h.pos > 0 {
				h.pos++
			}
			start := h.pos
			i := specIndexFrom(s, start, q)
			if i < 0 {
				h.state = shEOF
				return h.emit(html5TypeAttrValue, start, n-start)
			}
			h.pos = i + 1
			h.state = shAfterValueQuoted
			return h.emit(html5TypeAttrValue, start, i-start)

		case shAfterValueQuoted:
			if h.pos >= n {
				return false
			}
			c := s[h.pos]
			switch {
			case specH5White(c):
				h.pos++
				h.state = shBeforeAttrName
			case c == '/':
				h.pos++
				h.state = shSelfClosing
			case c == '>':
				start := h.pos
				h.pos++
				h.state = shData
				return h.emit(html5TypeTagNameClose, start, 1)
			default:
				h.state = shBeforeAttrName
			}

		case shMarkupDecl:
			rem := n - h.pos
			if rem >= 7 && vLowerASCII(s[h.pos:h.pos+7]) == "doctype" {
				h.state = shDoctype
			} else if rem >= 7 && s[h.pos:h.pos+7] == "[CDATA[" {
				h.pos += 7
				h.state = shCData
			} else if rem >= 2 && s[h.pos] == '-' && s[h.pos+1] == '-' {
				h.pos += 2
				h.state = shComment
			} else {
				h.state = shBogusComment
			}

		case shDoctype:
			start := h.pos
			i := specIndexFrom(s, start, '>')
			if i < 0 {
				h.state = shEOF
				return h.emit(html5TypeDocType, start, n-start)
			}
			h.pos = i + 1
			h.state = shData
			return h.emit(html5TypeDocType, start, i-start)

		case shBogusComment:
			start := h.pos
			i := specIndexFrom(s, start, '>')
			if i < 0 {
				h.pos = n
				h.state = shEOF
				return h.emit(html5TypeTagComment, start, n-start)
			}
			h.pos = i + 1
			h.state = shData
			return h.emit(html5TypeTagComment, start, i-start)

		case shBogusComment2:
			start := h.pos
			end := -1
			for i := start; i+1 < n; i++ {
				if s[i] == '%' && s[i+1] == '>' {
					end = i
					break
				}
			}
			if end < 0 {
				h.pos = n
				h.state = shEOF
				return h.emit(html5TypeTagComment, start, n-start)
			}
			h.pos = end + 2
			h.state = shData
			return h.emit(html5TypeTagComment, start, end-start)

		case shComment:
			start := h.pos
			end, resume := -1, -1
			for i := start; i+3 <= n; i++ {
				if s[i] != '-' {
					continue
				}
				j := i + 1
				for j < n && s[j] == 0 {
					j++
				}
				if j >= n {
					break // only NULs up to end of input: no terminator can follow
				}
				if s[j] != '-' && s[j] != '!' {
					continue
				}
				if j+1 >= n {
					break // terminator cut off by end of input
				}
				if s[j+1] == '>' {
					end, resume = i, j+2
					break
				}
			}
			if end < 0 {
				h.state = shEOF
				return h.emit(html5TypeTagComment, start, n-start)
			}
			h.pos = resume
			h.state = shData
			return h.emit(html5TypeTagComment, start, end-start)

		case shCData:
			start := h.pos
			end := -1
			for i := start; i+3 <= n; i++ {
				if s[i] == ']' && s[i+1] == ']' && s[i+2] == '>' {
					end = i
					break
				}
			}
			if end < 0 {
				h.state = shEOF
				return h.emit(html5TypeDataText, start, n-start)
			}
			h.pos = end + 3
			h.state = shData
			return h.emit(html5TypeDataText, start, end-start)
		}
	}
}

// ---- classification

func specStripNul(s string) string {
	out := make([]byte, 0, len(s))
	for i := 0; i < len(s); i++ {
		if s[i] != 0 {
			out = append(out, s[i])
		}
	}
	return string(out)
}

func specBlackTag(name string) bool {
	if len(name) < 3 {
		return false
	}
	u := vUpperASCII(specStripNul(name))
	for i := 0; i < len(blackTags); i++ {
		if u == blackTags[i] {
			return true
		}
	}
	// anything SVG or XSL(T) related
	if len(u) >= 3 && (u[:3] == "SVG" || u[:3] == "XSL") {
		return true
	}
	return false
}

func specBlackAttr(name string) int {
	u := vUpperASCII(specStripNul(name))
	if len(u) < 2 {
		return attributeTypeNone
	}
	if len(u) >= 5 {
		if u == "XMLNS" || u == "XLINK" {
			return attributeTypeBlack
		}
		if u[:2] == "ON" {
			ev := u[2:]
			for i := 0; i < len(blackEvents); i++ {
				if ev == blackEvents[i].name {
					return blackEvents[i].attributeType
				}
			}
		}
	}
	for i := 0; i < len(blacks); i++ {
		if u == blacks[i].name {
			return blacks[i].attributeType
		}
	}
	return attributeTypeNone
}

// specBlackURL: after leading bytes <= 0x20 or >= 0x7F, the decoded text (character references resolved, leading
// decoded controls skipped, NUL and LF ignored, ASCII upper-cased) starts with one of the script-capable schemes.
func specBlackURL(v string) bool {
	i := 0
	for i < len(v) && (v[i] <= 32 || v[i] >= 127) {
		i++
	}
	v = v[i:]
	schemes := [...]string{"DATA", "VIEW-SOURCE", "VBSCRIPT", "JAVA"}
	for k := 0; k < len(schemes); k++ {
		if specDecodedPrefix(schemes[k], v) {
			return true
		}
	}
	return false
}

func specDecodedPrefix(want string, v string) bool {
	p, k := 0, 0
	first := true
	for p < len(v) {
		if k == len(want) {
			return true
		}
		c, used := specDecode(v[p:])
		p += used
		if first && c <= 32 {
			continue
		}
		first = false
		if c == 0 || c == 10 {
			continue
		}
		if c >= 'a' && c <= 'z' {
			c -= 0x20
		}
		// the decoded value is compared as a byte, as upstream does ((char) cb): a code point above 0xFF is truncated
		if byte(c) != want[k] {
			return false
		}
		k++
	}
	return k == len(want)
}

func specCommentIsXSS(body string) bool {
	n := len(body)
	if specIndexFrom(body, 0, '`') >= 0 {
		return true
	}
	if n > 3 {
		if body[0] == '[' && vUpperASCII(body[1:3]) == "IF" {
			return true
		}
		if vUpperASCII(body[0:3]) == "XML" {
			return true
		}
	}
	if n > 5 {
		u := vUpperASCII(specStripNul(body[:6]))
		if u == "IMPORT" || u == "ENTITY" {
			return true
		}
	}
	return false
}

// specIsXSS: the classifier over the reference token stream in one context.
func specIsXSS(s string, ctx int) bool {
	h := specH5Init(s, ctx)
	attr := attributeTypeNone
	for specH5Next(h) {
		tok := s[h.tstart : h.tstart+h.tlen]
		if h.ttype != html5TypeAttrValue {
			attr = attributeTypeNone
		}
		switch h.ttype {
		case html5TypeDocType:
			return true
		case html5TypeTagNameOpen:
			if specBlackTag(tok) {
				return true
			}
		case html5TypeAttrName:
			attr = specBlackAttr(tok)
		case html5TypeAttrValue:
			switch attr {
			case attributeTypeBlack, attributeTypeStyle:
				return true
			case attributeTypeAttrURL:
				if specBlackURL(tok) {
					return true
				}
			case attributeTypeAttrIndirect:
				if specBlackAttr(tok) == attributeTypeBlack {
					return true
				}
			}
			attr = attributeTypeNone
		case html5TypeTagComment:
			if specCommentIsXSS(tok) {
				return true
			}
		}
	}
	return false
}
