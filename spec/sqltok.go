//go:build verif

package libinjection

// Reference specification of the libinjection SQL tokenizer (C06), written from the upstream algorithm:
// byte-at-a-time, explicit offsets, one pure function per lexical class. It calls nothing from the
// repository's lexers or helpers; the only shared artefact is the keyword table (sqlKeywords), as the property
// says ("evaluated over the project's own keyword table"). Case folding is ASCII-only, as upstream.

type specTok struct {
	cls   byte
	pos   int
	len   int
	val   string
	open  byte
	close byte
	count int
}

type specLex struct {
	s     string
	pos   int
	quote byte // 0, '\'' or '"': virtual opening quote
	mysql bool
	ddx   int // dash-dash-nonwhite comments seen
	hash  int // '#' seen (counted twice in MySQL mode, as upstream)
	ntok  int
}

const specClip = 31

func specMk(cls byte, s string, pos, n int) specTok {
	l := n
	if l > specClip {
		l = specClip
	}
	return specTok{cls: cls, pos: pos, len: l, val: s[pos : pos+l]}
}

// specKW: classification of a word by the keyword table, ASCII case-insensitive; 0 if absent.
func specKW(w string) byte {
	if v, ok := sqlKeywords[vUpperASCII(w)]; ok {
		return v
	}
	return 0
}

func specIsSQLWhite(c byte) bool {
	return c == ' ' || c == '\t' || c == '\n' || c == '\v' || c == '\f' || c == '\r' || c == 0xA0 || c == 0
}

func specIsDigit(c byte) bool { return c >= '0' && c <= '9' }

func specIsHex(c byte) bool {
	return (c >= '0' && c <= '9') || (c >= 'a' && c <= 'f') || (c >= 'A' && c <= 'F')
}

func specIsAlpha(c byte) bool { return (c >= 'a' && c <= 'z') || (c >= 'A' && c <= 'Z') }

// specWordStop: bytes that end a bare word.
func specWordStop(c byte) bool {
	switch c {
	case ' ', '[', ']', '{', '}', '<', '>', ':', '\\', '?', '=', '@', '!', '#', '~', '+', '-', '*', '/', '&', '|', '^', '%', '(', ')', ',', '\'', ';', '\t', '\n', '\v', '\f', '\r', '"', 0xA0, 0:
		return true
	}
	return false
}

// specVarStop: bytes that end a variable name.
func specVarStop(c byte) bool {
	switch c {
	case ' ', '<', '>', ':', '\\', '?', '=', '@', '!', '#', '~', '+', '-', '*', '/', '&', '|', '^', '%', '(', ')', ',', '\'', ';', '\t', '\n', '\v', '\f', '\r', '`', '"':
		return true
	}
	return false
}

// specSpan: length of the longest prefix of s[from:] whose bytes satisfy f.
func specSpanDigitsDotComma(s string, from int) int {
	i := from
	for i < len(s) && (specIsDigit(s[i]) || s[i] == '.' || s[i] == ',') {
		i++
	}
	return i - from
}

func specEOLComment(s string, pos int) (specTok, int) {
	i := pos
	for i < len(s) && s[i] != '\n' {
		i++
	}
	if i == len(s) {
		return specMk('c', s, pos, len(s)-pos), len(s)
	}
	return specMk('c', s, pos, i-pos), i + 1
}

func specString(s string, pos, offset int, d byte) (specTok, int) {
	start := pos + offset
	clen, closed, next := specQuoted(s, start, d)
	t := specMk('s', s, start, clen)
	if offset > 0 {
		t.open = d
	}
	if closed {
		t.close = d
	}
	return t, next
}

func specWord(s string, pos int) (specTok, int) {
	i := pos
	for i < len(s) && !specWordStop(s[i]) {
		i++
	}
	wlen := i - pos
	t := specMk('n', s, pos, wlen)
	// a keyword followed by '.' or '`' splits the word: SELECT.1, SELECT`col`
	for j := 0; j < t.len; j++ {
		if t.val[j] == '.' || t.val[j] == '`' {
			c := specKW(t.val[:j])
			if c != 0 && c != 'n' {
				return specMk(c, s, pos, j), pos + j
			}
		}
	}
	if wlen <= specClip {
		c := specKW(t.val)
		if c != 0 {
			t.cls = c
		}
	}
	return t, pos + wlen
}

func specNumber(s string, pos int) (specTok, int) {
	n := len(s)
	if s[pos] == '0' && pos+1 < n {
		c := s[pos+1]
		if c == 'x' || c == 'X' || c == 'b' || c == 'B' {
			i := pos + 2
			if c == 'x' || c == 'X' {
				for i < n && specIsHex(s[i]) {
					i++
				}
			} else {
				for i < n && (s[i] == '0' || s[i] == '1') {
					i++
				}
			}
			if i == pos+2 {
				return specMk('n', s, pos, 2), pos + 2
			}
			return specMk('1', s, pos, i-pos), i
		}
	}
	i := pos
	for i < n && specIsDigit(s[i]) {
		i++
	}
	if i < n && s[i] == '.' {
		i++
		for i < n && specIsDigit(s[i]) {
			i++
		}
		if i-pos == 1 {
			return specMk('.', s, pos, 1), i
		}
	}
	haveE, haveExp := false, false
	if i < n && (s[i] == 'e' || s[i] == 'E') {
		haveE = true
		i++
		if i < n && (s[i] == '+' || s[i] == '-') {
			i++
		}
		for i < n && specIsDigit(s[i]) {
			haveExp = true
			i++
		}
	}
	// Oracle float / double suffix
	if i < n && (s[i] == 'd' || s[i] == 'D' || s[i] == 'f' || s[i] == 'F') {
		if i+1 == n {
			i++
		} else if specIsSQLWhite(s[i+1]) || s[i+1] == ';' {
			i++
		} else if s[i+1] == 'u' || s[i+1] == 'U' {
			i++
		}
	}
	if haveE && !haveExp {
		return specMk('n', s, pos, i-pos), i
	}
	return specMk('1', s, pos, i-pos), i
}

func specQuotedLiteralNumber(s string, pos int, hex bool) (specTok, int, bool) {
	// x'...' / b'...': returns ok=false when the shape does not match (then it is a word)
	n := len(s)
	if pos+2 >= n || s[pos+1] != '\'' {
		return specTok{}, 0, false
	}
	i := pos + 2
	if hex {
		for i < n && specIsHex(s[i]) {
			i++
		}
	} else {
		for i < n && (s[i] == '0' || s[i] == '1') {
			i++
		}
	}
	if i >= n || s[i] != '\'' {
		return specTok{}, 0, false
	}
	return specMk('1', s, pos, i+1-pos), i + 1, true
}

func specQ(s string, pos, offset int) (specTok, int, bool) {
	p := pos + offset
	n := len(s)
	if p >= n || (s[p] != 'q' && s[p] != 'Q') || p+2 >= n || s[p+1] != '\'' {
		return specTok{}, 0, false
	}
	open := s[p+2]
	if open < 33 {
		return specTok{}, 0, false
	}
	clen, closed, next := specQString(s, p+3, open)
	t := specMk('s', s, p+3, clen)
	t.open = 'q'
	if closed {
		t.close = 'q'
	}
	return t, next, true
}

func specMoney(s string, pos int) (specTok, int) {
	n := len(s)
	if pos+1 == n {
		return specMk('n', s, pos, 1), n
	}
	k := specSpanDigitsDotComma(s, pos+1)
	if k == 0 {
		if s[pos+1] == '$' {
			clen, closed, next := specDollar(s, pos, pos+2)
			t := specMk('s', s, pos+2, clen)
			t.open = '$'
			if closed {
				t.close = '$'
			}
			return t, next
		}
		j := pos + 1
		for j < n && specIsAlpha(s[j]) {
			j++
		}
		if j == pos+1 || j == n || s[j] != '$' {
			return specMk('n', s, pos, 1), pos + 1
		}
		clen, closed, next := specDollar(s, pos, j+1)
		t := specMk('s', s, j+1, clen)
		t.open = '$'
		if closed {
			t.close = '$'
		}
		return t, next
	}
	if k == 1 && s[pos+1] == '.' {
		return specWord(s, pos)
	}
	return specMk('1', s, pos, k+1), pos + k + 1
}

func specVar(s string, pos int) (specTok, int) {
	n := len(s)
	p := pos + 1
	count := 1
	if p < n && s[p] == '@' {
		p++
		count = 2
	}
	if p < n && s[p] == '`' {
		t, next := specString(s, p, 1, '`')
		t.cls, t.count = 'v', count
		return t, next
	}
	if p < n && (s[p] == '\'' || s[p] == '"') {
		t, next := specString(s, p, 1, s[p])
		t.cls, t.count = 'v', count
		return t, next
	}
	i := p
	for i < n && !specVarStop(s[i]) {
		i++
	}
	t := specMk('v', s, p, i-p)
	t.count = count
	return t, i
}

func specOp2(s string, pos int) (specTok, int) {
	n := len(s)
	if pos+1 >= n {
		return specMk('o', s, pos, 1), pos + 1
	}
	if pos+2 < n && s[pos] == '<' && s[pos+1] == '=' && s[pos+2] == '>' {
		return specMk('o', s, pos, 3), pos + 3
	}
	if c := specKW(s[pos : pos+2]); c != 0 {
		return specMk(c, s, pos, 2), pos + 2
	}
	if s[pos] == ':' {
		return specMk(':', s, pos, 1), pos + 1
	}
	return specMk('o', s, pos, 1), pos + 1
}

func specSlash(s string, pos int) (specTok, int) {
	n := len(s)
	if pos+1 == n || s[pos+1] != '*' {
		return specMk('o', s, pos, 1), pos + 1
	}
	end := -1 // offset of the closing "*/"
	for i := pos + 2; i+1 < n; i++ {
		if s[i] == '*' && s[i+1] == '/' {
			end = i
			break
		}
	}
	cls := byte('c')
	clen := n - pos
	if end >= 0 {
		clen = end + 2 - pos
		// a nested opener before the closing star makes the comment un-parseable: evil
		for i := pos + 2; i+1 <= end; i++ {
			if s[i] == '/' && s[i+1] == '*' {
				cls = 'X'
			}
		}
	}
	if cls != 'X' && pos+2 < n && s[pos+2] == '!' {
		cls = 'X' // MySQL conditional comment
	}
	return specMk(cls, s, pos, clen), pos + clen
}

func specDash(l *specLex, pos int) (specTok, int) {
	s := l.s
	n := len(s)
	if pos+2 < n && s[pos+1] == '-' && specIsSQLWhite(s[pos+2]) {
		return specEOLComment(s, pos)
	}
	if pos+2 == n && s[pos+1] == '-' {
		return specEOLComment(s, pos)
	}
	if pos+1 < n && s[pos+1] == '-' && !l.mysql {
		l.ddx++
		return specEOLComment(s, pos)
	}
	return specMk('o', s, pos, 1), pos + 1
}

// specStep scans from l.pos and returns the next token; ok=false at end of input.
func specStep(l *specLex) (specTok, bool) {
	s := l.s
	n := len(s)
	if n == 0 {
		return specTok{}, false
	}
	if l.pos == 0 && l.quote != 0 {
		t, next := specString(s, 0, 0, l.quote)
		l.pos = next
		l.ntok++
		return t, true
	}
	for l.pos < n {
		pos := l.pos
		c := s[pos]
		var t specTok
		next := pos + 1
		isWordStart := false
		switch {
		case c <= 32 || c == 127 || c == 0xA0:
			// whitespace: no token
		case c == '!' || c == '&' || c == '*' || c == ':' || c == '<' || c == '=' || c == '>' || c == '|':
			t, next = specOp2(s, pos)
		case c == '"' || c == '\'':
			t, next = specString(s, pos, 1, c)
		case c == '#':
			l.hash++
			if l.mysql {
				l.hash++
				t, next = specEOLComment(s, pos)
			} else {
				t = specMk('o', s, pos, 1)
			}
		case c == '$':
			t, next = specMoney(s, pos)
		case c == '%' || c == '+' || c == '^' || c == '~':
			t = specMk('o', s, pos, 1)
		case c == '(' || c == ')' || c == ',' || c == ';' || c == '{' || c == '}':
			t = specMk(c, s, pos, 1)
		case c == '-':
			t, next = specDash(l, pos)
		case c == '.' || specIsDigit(c):
			t, next = specNumber(s, pos)
		case c == '/':
			t, next = specSlash(s, pos)
		case c == '?' || c == ']':
			t = specMk('?', s, pos, 1)
		case c == '@':
			t, next = specVar(s, pos)
		case c == '[':
			i := pos
			for i < n && s[i] != ']' {
				i++
			}
			if i == n {
				t, next = specMk('n', s, pos, n-pos), n
			} else {
				t, next = specMk('n', s, pos, i+1-pos), i+1
			}
		case c == '\\':
			if pos+1 < n && s[pos+1] == 'N' {
				t, next = specMk('1', s, pos, 2), pos+2
			} else {
				t = specMk('\\', s, pos, 1)
			}
		case c == '`':
			t, next = specString(s, pos, 1, '`')
			if specKW(t.val) == 'f' {
				t.cls = 'f'
			} else {
				t.cls = 'n'
			}
		case c == 'b' || c == 'B' || c == 'x' || c == 'X':
			var ok bool
			t, next, ok = specQuotedLiteralNumber(s, pos, c == 'x' || c == 'X')
			isWordStart = !ok
		case c == 'e' || c == 'E':
			if pos+2 < n && s[pos+1] == '\'' {
				t, next = specString(s, pos, 2, '\'')
			} else {
				isWordStart = true
			}
		case c == 'n' || c == 'N':
			if pos+2 < n && s[pos+1] == '\'' {
				t, next = specString(s, pos, 2, '\'')
			} else {
				var ok bool
				t, next, ok = specQ(s, pos, 1)
				isWordStart = !ok
			}
		case c == 'q' || c == 'Q':
			var ok bool
			t, next, ok = specQ(s, pos, 0)
			isWordStart = !ok
		case c == 'u' || c == 'U':
			if pos+2 < n && s[pos+1] == '&' && s[pos+2] == '\'' {
				t, next = specString(s, pos+2, 1, '\'')
				t.open = 'u'
				if t.close == '\'' {
					t.close = 'u'
				}
			} else {
				isWordStart = true
			}
		default:
			// letters, '_', and every byte >= 0x80 except 0xA0
			isWordStart = true
		}
		if isWordStart {
			t, next = specWord(s, pos)
		}
		l.pos = next
		if t.cls != 0 {
			l.ntok++
			return t, true
		}
	}
	return specTok{}, false
}

func specNewLex(s string, flags int) *specLex {
	l := &specLex{s: s}
	if flags&sqliFlagQuoteSingle != 0 {
		l.quote = '\''
	} else if flags&sqliFlagQuoteDouble != 0 {
		l.quote = '"'
	}
	l.mysql = flags&sqliFlagSQLMysql != 0
	return l
}
