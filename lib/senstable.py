#!/usr/bin/python3
"""prints the sensitivity table (seeded change x check -> verdict) from seeded/*/meta.json as markdown"""
import json, os, glob
V = os.path.dirname(os.path.dirname(os.path.abspath(__file__)))
rows = []
for m in sorted(glob.glob(os.path.join(V, "seeded", "*", "meta.json"))):
    d = json.load(open(m))
    what = " ".join(d.get("needs_to_manifest", "").split())[:150]
    runs = d.get("checks_run", {})
    det = [k.split()[0] for k, v in runs.items() if v["verdict"] == "DETECTED"]
    mis = [k.split()[0] for k, v in runs.items() if v["verdict"] == "missed"]
    inc = [k.split()[0] for k, v in runs.items() if v["verdict"] not in ("DETECTED", "missed")]
    rows.append((d["name"], d["breaks_property"], ",".join(det) or "-", ",".join(mis) or "-", ",".join(inc) or "-", what))
print("| seeded change | breaks | detected by (quick) | missed by | inconclusive | what it is |")
print("|---|---|---|---|---|---|")
for r in rows:
    print("| %s | %s | %s | %s | %s | %s |" % r)
n = len(rows)
print("\n%d seeded changes; %d detected by at least one registered check" % (n, sum(1 for r in rows if r[2] != "-")))
