TECH = "bounded symbolic execution of Go SSA + SMT (z3, QF_BV); native replay of models"
NOTE = ("Holds for every input inside the stated bounds (free bytes per harness; see evidence.coverage.bounds), nothing is claimed outside them. "
        "Trusted: go/ssa as the semantics of the source, z3's verdicts, the engine's models of the nine strings.* entry points (DESIGN.md 3.5); "
        "every reported counterexample is re-run against the natively compiled package first.")
CLAIMS = {
    "C01": {"category": "model_checking", "technique": TECH, "note": NOTE,
            "text": "Every feasible path of IsSQLi over all byte strings up to the bound is enumerated symbolically; on each, every index, slice, nil, division and step-budget obligation is decided by the solver. Bytes >= 0x80 are inside the claim through an over-approximate model of Unicode case mapping."},
    "C02": {"category": "model_checking", "technique": TECH, "note": NOTE,
            "text": "Every feasible path of isXSS in each of the five contexts over all byte strings up to the bound; run-time panics, non-termination (step budget) and call depth are obligations on each path."},
}
NOT_APPLICABLE = {}
