#!/usr/bin/python3
"""replaces the block between <!-- SENS-BEGIN --> and <!-- SENS-END --> in DESIGN.md by the current sensitivity table"""
import os, subprocess
V = os.path.dirname(os.path.dirname(os.path.abspath(__file__)))
tab = subprocess.run(["python3", os.path.join(V, "lib", "senstable.py")], capture_output=True, text=True).stdout
p = os.path.join(V, "DESIGN.md")
s = open(p).read()
a, b = "<!-- SENS-BEGIN -->", "<!-- SENS-END -->"
i, j = s.index(a), s.index(b)
s = s[:i + len(a)] + "\n" + tab + s[j:]
open(p, "w").write(s)
print("table updated")
