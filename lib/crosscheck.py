#!/usr/bin/python3
"""Cross-checks the SMT queries of a few representative engine jobs against two other solvers.

   python3 lib/crosscheck.py            (not a registered check; run when the encoding changes)

For each job the engine logs every line it sends to z3 4.8.12 (declare/assert/push/pop/check-sat); the same script is then
fed to z3-new (5.1.0) and to cvc5 (--incremental) and the sequences of sat/unsat answers are compared."""
import os, subprocess, sys, tempfile
V = os.path.dirname(os.path.dirname(os.path.abspath(__file__)))
H = lambda *n: ",".join(os.path.join(V, "harness", x) for x in n)
S = lambda *n: ",".join(os.path.join(V, "spec", x) for x in n)
BIN = os.environ.get("SYMGO_BIN", os.path.join(V, "bin", "symgo"))
JOBS = [
    (H("base.go", "h_api.go"), "HSqliTotal", "2", ["-safety"]),
    (H("base.go", "h_sqli.go", "h_spec_sqli.go", "h_xss_units.go") + "," + S("strlit.go", "sqltok.go", "sqlfold.go"), "HSpecLex", "3,0", []),
    (H("base.go", "h_xss_units.go", "h_spec_xss.go") + "," + S("entity.go", "h5tok.go", "strlit.go"), "HSpecXss", "3,1", []),
    (H("base.go", "h_url.go") + "," + S("entity.go", "strlit.go"), "HDecode", "5", []),
    (H("base.go", "h_sqli.go", "h_case.go"), "HSqliCase", "2", ["-part", "39,39"]),
    (H("base.go", "h_strlit.go") + "," + S("strlit.go"), "HStrCore", "5,0", []),
]
env = dict(os.environ, GOFLAGS="-mod=mod", GOPROXY="off")
bad = 0
for ov, entry, args, extra in JOBS:
    with tempfile.NamedTemporaryFile(suffix=".smt2", delete=False) as f:
        log = f.name
    r = subprocess.run([BIN, "run", "-overlay", ov, "-entry", entry, "-args", args, "-smtlog", log] + extra, capture_output=True, text=True, env=env)
    script = open(log).read()
    nq = script.count("(check-sat)")
    ref = None
    out = {}
    for name, cmd in (("z3-4.8.12", ["z3", "-in"]), ("z3-new", ["z3-new", "-in"]), ("cvc5", ["cvc5", "--incremental", "--produce-models", "--lang=smt2"])):
        p = subprocess.run(cmd, input=script.replace("(set-option :print-success false)", "(set-option :print-success false)") + "\n(exit)\n", capture_output=True, text=True)
        ans = [l.strip() for l in p.stdout.splitlines() if l.strip() in ("sat", "unsat", "unknown") or l.startswith("(error")]
        out[name] = ans
    a = out["z3-4.8.12"]
    ok = all(out[k] == a for k in out) and len(a) == nq
    print("%-12s %-8s queries=%d  z3-new %s  cvc5 %s" % (entry, args, nq, "agree" if out["z3-new"] == a else "DIFFER", "agree" if out["cvc5"] == a else "DIFFER"))
    if not ok:
        bad += 1
        for k in out:
            print("   ", k, len(out[k]), [x for x in out[k] if x not in ("sat", "unsat")][:3])
    os.remove(log)
sys.exit(1 if bad else 0)
