"""Per-property job tables (DESIGN.md section 7)."""
import json, os, sys
from runner import *

# first-byte partitions used to spread one whole-API exploration over the worker pool (ranges are inclusive);
# together they cover 0..255, so the union of the jobs is the complete exploration.
def parts(bounds):
    out, lo = [], 0
    for b in bounds:
        out.append([lo, b])
        lo = b + 1
    assert lo == 256
    return out

SQL_PARTS = parts([32, 33, 34, 35, 36, 38, 39, 41, 44, 45, 46, 47, 48, 57, 63, 64, 65, 66, 68, 69, 77, 78, 80, 81, 84, 85, 87, 88, 90,
                   91, 92, 96, 97, 98, 100, 101, 109, 110, 112, 113, 116, 117, 119, 120, 122, 127, 255])
XSS_PARTS = parts([31, 33, 34, 38, 39, 46, 47, 59, 60, 61, 62, 95, 96, 127, 255])


def part_jobs(entry, args, partition, **kw):
    return [job(entry, args, part=p, **kw) for p in partition]


def longtok_jobs(tier, flags=(0, 1)):
    jobs = []
    Ls = (31, 32, 33) if tier == "quick" else (29, 30, 31, 32, 33, 34)
    for k in range(15):
        for L in Ls:
            for pre, post in ((0, 1), (1, 0)):
                for f in flags:
                    jobs.append(job("HLongTok", [k, L, pre, post, f], safety=True, witness_every=20))
    return jobs


def c01(tier, seed):
    c = Check("C01", tier, seed)
    N, NU, NT = (3, 5, 2) if tier == "quick" else (4, 6, 3)
    jobs = []
    for n in range(0, N + 1):
        if n <= 1:
            jobs.append(job("HSqliTotal", [n], safety=True, witness_every=5))
        else:
            jobs += part_jobs("HSqliTotal", [n], SQL_PARTS, safety=True, witness_every=200 if n >= 3 else 20)
    jobs.append(job("HSqliTotal", [2], safety=True, paranoid=True))  # every byte-domain verdict of this job is re-decided by z3
    c.run_group("W-api", BASE + H("h_api.go"), jobs)
    jobs = []
    for f in range(5):
        jobs += wjobs("HLex", NU, extra=[f], split_from=4, safety=True)
    c.run_group("U-first-token", SQLI, jobs, expect_labels=["token", "end"])
    c.run_group("T-long-tokens", SQLI, longtok_jobs(tier), expect_labels=["end"])
    jobs = []
    for w in range(41):
        for n in range(0, NT + 1):
            for pre in ((0,) if n == NT and tier == "quick" else (0, 1, 2, 3)):
                jobs.append(job("HSqlOpener", [w, n, pre], safety=True, witness_every=50))
    c.run_group("T-openers-api", BASE + H("h_api.go"), jobs, expect_labels=["done"])
    c.run_group("T-attack-templates", SQLT, rel_jobs(tier, seed, "HSqlAttackTotal", "HSqlNearTotal", qstep=96), expect_labels=["done"])
    c.run_group("T-class-sequences", BASE + H("h_sqli.go", "h_sql_tpl.go", "h_sql_seq.go"), seq_jobs("HSqlSeqTotal", tier, seed, frac_quick=8, safety=True), expect_labels=["done"])
    return c.finish("model_checking", "every feasible path of IsSQLi over every byte string of length <= %d; first scan step in 5 modes for inputs <= %d; 15 kinds of long tokens (29-34 bytes) with a free byte before or after; 41 construct openers x 4 context prefixes + <= %d free bytes; each path's index/slice/nil/division/step-budget obligations decided by z3 or the byte-domain procedure" % (N, NU, NT),
                    {"W_free_bytes": N, "U_free_bytes": NU, "opener_tail_free_bytes": NT})


def c02(tier, seed):
    c = Check("C02", tier, seed)
    N, NS, NC, NT = (4, 5, 6, 3) if tier == "quick" else (6, 7, 8, 4)
    jobs = []
    for ctx in range(5):
        for n in range(0, N + 1):
            jobs.append(job("HXssCtxTotal", [n, ctx], safety=True, witness_every=20))
    jobs.append(job("HXssCtxTotal", [3, 1], safety=True, paranoid=True))
    c.run_group("W", BASE + H("h_total.go"), jobs)
    c.run_group("W-api", BASE + H("h_api.go"), wjobs("HXssTotal", N - 1, partition=XSS_PARTS, split_from=4, safety=True))
    XU = BASE + H("h_xss_units.go")
    jobs = []
    for st in range(22):
        for n in range(0, NS + 1):
            for p in (0, 1):
                if p <= n:
                    jobs.append(job("HStateRun", [n, st, p], safety=True, witness_every=40))
    c.run_group("U-state-run", XU, jobs, expect_labels=["stopped"])
    # call depth must not grow with the input length: the bound is the depth measured at a small size plus slack 2
    jobs = []
    for st in range(22):
        for n in (NS - 1, NS + 1):
            jobs.append(job("HStateDepth", [n, st, 1 if n >= 1 else 0, 8], safety=True))
    pump_log = []

    def confirm_depth(v, nat_res, r):
        if "call depth" in v["msg"]:
            data = bytes(iv["val"] for iv in v["inputs"] if iv["name"].startswith("in0_"))
            if sum(1 for p in pump_log if p["confirmed"]) >= 2 or len(pump_log) >= 5:
                return None
            got, info = c.nat.pump(data)
            pump_log.append({"input": v["text"], "confirmed": got, "info": info})
            return got
        return engine_to_native_ok(v, nat_res)

    c.run_group("U-depth", XU, jobs, expect_labels=["stopped"], confirm=confirm_depth)
    c.extra_cov["native_pump_runs"] = pump_log
    jobs = []
    for w in range(25):
        for ctx in (0, 1):
            for n in range(0, NT + 1):
                jobs.append(job("HOpener", [n, w, ctx], safety=True, witness_every=20))
    for w in (1, 2, 3, 4, 6, 21, 22, 23):  # comment-like openers: the classifier slices the comment body; longer bodies over a small alphabet
        for n in range(NT + 1, 9 if tier == "quick" else 11):
            jobs.append(job("HOpenerAlpha", [n, w, 0], safety=True, witness_every=100))
    c.run_group("T-openers", XU, jobs)
    jobs = []
    for w in range(5):
        jobs += wjobs("HClassTotal", NC, extra=[w], partition=XSS_PARTS, split_from=6, safety=True)
    c.run_group("U-classifiers", BASE + H("h_url.go") + S("entity.go", "strlit.go"), jobs, expect_labels=["done"])
    return c.finish("model_checking", "isXSS in each of the 5 contexts over every byte string <= %d; every tokenizer state from offsets 0/1 run to completion on inputs <= %d (no panic, bounded call depth <= 8 at two sizes); 25 openers + <= %d free bytes; classifiers and decoder on every string <= %d" % (N, NS, NT, NC),
                    {"W_free_bytes": N, "state_free_bytes": NS, "opener_tail": NT, "classifier_free_bytes": NC})


SQLI = BASE + H("h_sqli.go")
XSSU = BASE + H("h_xss_units.go")
XSSA = BASE + H("h_xss_api.go")
STR = BASE + H("h_strlit.go") + S("strlit.go")


def wjobs(entry, nmax, extra=(), partition=SQL_PARTS, split_from=3, **kw):
    """whole-API jobs for all lengths 0..nmax; lengths >= split_from are split on the first byte."""
    jobs = []
    for n in range(0, nmax + 1):
        if n < split_from:
            jobs.append(job(entry, [n] + list(extra), witness_every=kw.get("wsmall", 25), **{k: v for k, v in kw.items() if k not in ("wsmall", "wbig")}))
        else:
            jobs += part_jobs(entry, [n] + list(extra), partition, witness_every=kw.get("wbig", 400), **{k: v for k, v in kw.items() if k not in ("wsmall", "wbig")})
    return jobs


def rel_jobs(tier, seed, entry_attack="HSqlAttackRel", entry_near="HSqlNearRel", qstep=24, **kw):
    """template jobs shared by C08 / C12 (/ C06): a rotating slice of the attack grammar + all near-benign templates"""
    allg, _ = sql_grammar_all()
    step = qstep if tier == "quick" else max(2, qstep // 8)
    sel = [d for i, d in enumerate(allg) if i % step == seed % step]
    jobs = [job(entry_attack, list(d), safety=kw.get("safety", True), witness_every=6, max_witness=1) for d in sel]
    for i in range(NNEAR):
        for sep in ((0, 2) if tier == "quick" else (0, 1, 2, 3)):
            jobs.append(job(entry_near, [i, sep], safety=kw.get("safety", True), witness_every=6, max_witness=1))
    return jobs


def sql_grammar_all():
    return [(c, a, sp, t) for c in range(10) for a in range(52) for sp in range(4) for t in range(9)], None


SQLSEQ = None


def seq_jobs(entry, tier, seed, kmax_quick=3, frac_quick=1, frac_thorough4=8, block=250, **kw):
    """token-class sequences: all 26^k sequences for k <= 3 (a 1/frac slice of the blocks in quick), a slice of k = 4 in thorough"""
    jobs = []
    for k in range(1, (kmax_quick if tier == "quick" else 4) + 1):
        total = 26 ** k
        blocks = [(lo, min(lo + block, total) - 1) for lo in range(0, total, block)]
        frac = 1
        if tier == "quick" and k == kmax_quick:
            frac = frac_quick
        if k == 4:
            frac = frac_thorough4
        for i, (lo, hi) in enumerate(blocks):
            if i % frac == seed % frac:
                jobs.append(job(entry, [k, lo, hi], witness_every=400, max_witness=2, **kw))
    return jobs


def c08(tier, seed):
    c = Check("C08", tier, seed)
    N = 3 if tier == "quick" else 4
    c.run_group("W-verdict-fp", SQLI, wjobs("HVerdictFp", N, safety=True), expect_labels=["negative", "positive"])
    jobs = []
    for f in range(5):
        jobs += wjobs("HFpLen", N, extra=[f], safety=True)
    c.run_group("W-fp-len", SQLI, jobs, expect_labels=["checked"])
    c.run_group("T-relations", SQLT, rel_jobs(tier, seed), expect_labels=["checked"])
    c.run_group("T-class-sequences", BASE + H("h_sqli.go", "h_sql_tpl.go", "h_sql_seq.go"), seq_jobs("HSqlSeqRel", tier, seed, safety=True), expect_labels=["checked"])
    return c.finish("model_checking", "every sequence of <= 3 (thorough: a slice of 4) items over 26 token-class representatives; verdict/fingerprint relation of IsSQLi for all inputs <= %d bytes; per-context fingerprint length and alphabet for all inputs <= %d bytes in 5 modes" % (N, N), {"W_free_bytes": N})


def c12(tier, seed):
    c = Check("C12", tier, seed)
    N = 3 if tier == "quick" else 4
    c.run_group("W-cascade", SQLI, wjobs("HCascade", N, safety=True), expect_labels=["checked"])
    jobs = []
    for q in range(2):
        for my in range(2):
            jobs += [j for j in wjobs("HVirtualQuote", N, extra=[q, my], safety=True) if j["args"][0] >= 1]  # the property is stated for s != ""
    c.run_group("W-virtual-quote", SQLI, jobs, expect_labels=["checked"])
    c.run_group("T-relations", SQLT, rel_jobs(tier, seed), expect_labels=["checked"])
    jobs = []
    for i in range(NNEAR):
        for sep in ((0,) if tier == "quick" else (0, 1, 2, 3)):
            for q in range(2):
                for my in range(2):
                    jobs.append(job("HVirtualQuoteT", [i, sep, q, my], safety=True, witness_every=6, max_witness=1))
    c.run_group("T-virtual-quote", SQLT, jobs, expect_labels=["checked"])
    c.run_group("T-class-sequences", BASE + H("h_sqli.go", "h_sql_tpl.go", "h_sql_seq.go"), seq_jobs("HSqlSeqRel", tier, seed, safety=True), expect_labels=["checked"])
    return c.finish("model_checking", "IsSQLi vs the documented cascade evaluated on fresh state, and inside-quote vs quote+input as-is, for all inputs <= %d bytes" % N, {"W_free_bytes": N})


def c13(tier, seed):
    c = Check("C13", tier, seed)
    NO, NE, NP = (4, 5, 4) if tier == "quick" else (5, 6, 5)
    c.run_group("W-or", XSSA, wjobs("HXssOr", NO, partition=XSS_PARTS, split_from=4, safety=True), expect_labels=["checked"])
    jobs = []
    for ctx in range(1, 5):
        jobs += wjobs("HXssEmbed", NE, extra=[ctx], partition=XSS_PARTS, split_from=5, safety=True)
    c.run_group("W-embed", XSSA, jobs, expect_labels=["checked"])
    jobs = []
    for k in (1, 2):
        jobs += wjobs("HXssPrefix", NP, extra=[k], partition=XSS_PARTS, split_from=9, safety=True)
    c.run_group("W-prefix", XSSA, jobs, expect_labels=["checked"])
    jobs = []
    step = 7 if tier == "quick" else 1
    for i in range(seed % step, NEVENTS, step):
        for ctx in range(5):
            for sep in (0, 2):
                jobs.append(job("HXssOrT", [0, i, ctx, sep if ctx >= 2 else 0], safety=True, witness_every=3, max_witness=1))
    for i in range(NBLACKS):
        for ctx in range(5):
            for sep in (0, 2):
                jobs.append(job("HXssOrT", [1, i, ctx, sep if ctx >= 2 else 0], safety=True, witness_every=3, max_witness=1))
    # the breakout quote at offset 0 (no filler before it)
    for kind, n, st in ((0, NEVENTS, 11 if tier == "quick" else 1), (1, NBLACKS, 2 if tier == "quick" else 1)):
        for i in range(seed % st, n, st):
            for ctx in range(1, 5):
                for sep in (100, 102):
                    jobs.append(job("HXssOrT", [kind, i, ctx, sep if ctx >= 2 else 100], safety=True, witness_every=3, max_witness=1))
    c.run_group("T-vectors", XSST, jobs, expect_labels=["checked"])
    jobs = []
    picks = [(0, i) for i in range(seed % 29, NEVENTS, 29 if tier == "quick" else 5)] + [(1, i) for i in range(0, NBLACKS, 3 if tier == "quick" else 1)] + [(2, 0)]
    for kind, i in picks:
        for ctx in range(1, 5):
            for lead in range(14):
                jobs.append(job("HXssEmbedT", [kind, i, ctx, lead], safety=True, witness_every=5, max_witness=1))
    c.run_group("T-embed-leads", XSST, jobs, expect_labels=["checked"])
    return c.finish("model_checking", "IsXSS = OR of contexts (inputs <= %d); context verdict = verdict of embedded markup (inputs <= %d, 4 contexts); prefix without '<' (<= 2 bytes) + input <= %d" % (NO, NE, NP),
                    {"or_free_bytes": NO, "embed_free_bytes": NE, "prefix_free_bytes": NP})


def c15(tier, seed):
    c = Check("C15", tier, seed)
    NW, NC = (4, 6) if tier == "quick" else (5, 7)
    c.run_group("W", XSSA, wjobs("HXssNoLtEq", NW, partition=XSS_PARTS, split_from=4, safety=True), expect_labels=["checked"])
    jobs = []
    for ctx in range(5):
        jobs += wjobs("HXssNoLtEqCtx", NC, extra=[ctx], partition=XSS_PARTS, split_from=5, safety=True)
    c.run_group("W-ctx", XSSA, jobs, expect_labels=["checked"])
    jobs = []
    step = 5 if tier == "quick" else 1
    for i in range(seed % step, NEVENTS, step):
        jobs.append(job("HXssNameNoEqT", [0, i, 1, 1], safety=True, witness_every=50, max_witness=1))
    for i in range(NBLACKS):
        for pre, post in ((1, 1), (0, 2), (2, 0), (0, 3)):
            jobs.append(job("HXssNameNoEqT", [1, i, pre, post], safety=True, witness_every=50, max_witness=1))
    for i in range(seed % 40, NEVENTS, 40 if tier == "quick" else 8):
        jobs.append(job("HXssNameNoEqT", [0, i, 0, 3], safety=True, witness_every=50, max_witness=1))
    for i in range(4):
        for pre, post in ((1, 1), (0, 2), (2, 0)):
            jobs.append(job("HXssNameNoEqT", [2, i, pre, post], safety=True, witness_every=50, max_witness=1))
    c.run_group("T-names", XSST, jobs, expect_labels=["checked"])
    return c.finish("model_checking", "IsXSS false for every string over bytes minus {<,=} of length <= %d; per context for length <= %d" % (NW, NC), {"W_free_bytes": NW, "ctx_free_bytes": NC})


def c16(tier, seed):
    c = Check("C16", tier, seed)
    NU, NW = (5, 3) if tier == "quick" else (6, 4)
    jobs = []
    for f in range(5):
        jobs += wjobs("HLex", NU, extra=[f], split_from=4, safety=True)
    c.run_group("U-first-token", SQLI, jobs, expect_labels=["token", "end"])
    jobs = []
    for f in range(5):
        jobs += wjobs("HStream", NW, extra=[f], safety=True)
    c.run_group("W-stream", SQLI, jobs, expect_labels=["end"])
    c.run_group("T-long-tokens", SQLI, longtok_jobs(tier, flags=(0, 1, 2)), expect_labels=["end"])
    return c.finish("model_checking", "per-token shape (value = input slice, clip, span, class) on the first scan step for all inputs <= %d bytes in 5 modes; chain conditions over the whole token stream for all inputs <= %d bytes in 5 modes; 15 kinds of long tokens (bodies of 29-34 bytes) with a free byte before or after" % (NU, NW),
                    {"U_free_bytes": NU, "W_free_bytes": NW, "modes": 5})


def c17(tier, seed):
    c = Check("C17", tier, seed)
    NS, NC = (5, 7) if tier == "quick" else (7, 10)
    jobs = []
    for st in range(22):
        for n in range(0, NS + 1):
            for p in (0, 1):
                if p <= n:
                    jobs.append(job("HStateRun", [n, st, p], safety=True, witness_every=40))
    c.run_group("U-state-run", XSSU, jobs, expect_labels=["stopped"])
    jobs = []
    for w in range(12):
        for n in range(0, NC + 1):
            jobs.append(job("HConstruct", [n, w], safety=True, witness_every=20))
    for w in range(6):
        for n in range(0, NC + 1):
            jobs.append(job("HConstructAPI", [n, w], safety=True, witness_every=20))
    c.run_group("U-first-terminator", XSSU, jobs, expect_labels=["checked"])
    return c.finish("model_checking", "range/order/count of every token from each of the 22 tokenizer states on every input <= %d bytes (entry offsets 0 and 1); first-terminator oracle for the 9 delimited constructs on every body <= %d bytes" % (NS, NC),
                    {"state_run_free_bytes": NS, "construct_body_free_bytes": NC})


def c18(tier, seed):
    c = Check("C18", tier, seed)
    N = 7 if tier == "quick" else 10
    jobs = []
    for mode in range(3):
        for n in range(max(1, mode), N + 1):
            jobs.append(job("HStrCore", [n, mode], safety=True, witness_every=20))
    for form in range(8):
        for f in range(5):
            if (form <= 6) != (f <= 1):
                continue
            lo = {0: 1, 1: 1, 2: 2, 3: 2, 4: 3, 5: 2, 6: 3, 7: 1}[form]
            for n in range(lo, N):
                jobs.append(job("HStrLex", [n, form, f], safety=True, witness_every=20))
    for nq in range(2):
        for n in range(3 + nq, N + 2):
            jobs.append(job("HQStr", [n, nq], safety=True, witness_every=10))
    for k in range(0, 4):
        for n in range(k + 2, N + 2):
            jobs.append(job("HDollar", [n, k], safety=True, witness_every=10))
    for first in range(8):
        for n in range(1, N - 1):
            jobs.append(job("HStrSecond", [n, first], safety=True, witness_every=20))
    c.run_group("U-literals", STR, jobs, expect_labels=["checked"])
    jobs = []
    for form in range(10):
        for L in ((31, 32, 33) if tier == "quick" else (29, 30, 31, 32, 33, 34, 40)):
            for post in (0, 1, 2):
                jobs.append(job("HStrLongT", [form, L, post], safety=True, witness_every=5))
    c.run_group("T-long-bodies", STR, jobs, expect_labels=["checked"])
    return c.finish("model_checking", "every literal form (quoted real/virtual/prefixed/variable, q-quote with any delimiter byte >= 33, dollar-quote with tags of 0-3 letters) on every input up to %d bytes vs the first-terminator oracle" % N,
                    {"U_free_bytes": N})


def c20(tier, seed):
    import c20 as C20
    c = Check("C20", tier, seed)
    C20.run(c, tier)
    return c.finish("other", "finite: every entry of the five shipped tables (executed init) against well-formedness predicates (z3 over a symbolic entry index), the pinned baseline, and the real look-up code", {"entries": "all"})


SPECSQL = BASE + H("h_sqli.go", "h_spec_sqli.go", "h_xss_units.go") + S("strlit.go", "sqltok.go", "sqlfold.go")
URL = BASE + H("h_url.go") + S("entity.go", "strlit.go")


def c06(tier, seed):
    c = Check("C06", tier, seed)
    NU, NW = (5, 3) if tier == "quick" else (6, 4)
    jobs = []
    for f in range(5):
        jobs += wjobs("HSpecLex", NU, extra=[f], split_from=4, wbig=300)
    jobs.append(job("HSpecLex", [3, 0], paranoid=True))
    c.run_group("U-first-token", SPECSQL, jobs, expect_labels=["checked"])
    jobs = []
    for f in range(5):
        jobs += wjobs("HSpecStream", NW, extra=[f])
        jobs += wjobs("HSpecFold", NW, extra=[f])
    c.run_group("W-stream-fold", SPECSQL, jobs, expect_labels=["checked"])
    c.run_group("W-api", SPECSQL, wjobs("HSpecIsSQLi", NW), expect_labels=["checked"])
    c.run_group("T-templates", SPECSQL + H("h_sql_tpl.go", "h_spec_sqli_tpl.go", "h_sql_seq.go"), rel_jobs(tier, seed, "HSpecSqlT", "HSpecSqlNearT", qstep=101, safety=False), expect_labels=["checked"])
    c.run_group("T-class-sequences", SPECSQL + H("h_sql_tpl.go", "h_spec_sqli_tpl.go", "h_sql_seq.go"), seq_jobs("HSpecSqlSeq", tier, seed, frac_quick=6, frac_thorough4=32), expect_labels=["checked"])
    c.assumptions.append("text that reaches a Unicode case-folding call is ASCII (other paths are closed as excluded and counted)")
    return c.finish("model_checking", "implementation vs independently written reference (spec/sqltok.go, spec/sqlfold.go) on the same symbolic input: first token in 5 modes for all inputs <= %d bytes; token stream, folded tokens, fingerprint, context verdict in 5 modes and IsSQLi for all inputs <= %d bytes" % (NU, NW),
                    {"U_free_bytes": NU, "W_free_bytes": NW, "modes": 5})


def c19(tier, seed):
    c = Check("C19", tier, seed)
    ND = 7 if tier == "quick" else 9
    c.run_group("U-decoder", URL, [job("HDecode", [n], witness_every=10) for n in range(0, ND + 1)], expect_labels=["checked"])
    jobs = []
    for hexa in (0, 1):
        for zeros in ((1, 4, 5, 6, 7, 8, 12) if tier == "quick" else range(1, 16)):
            for n in ((2, 3) if tier == "quick" else (1, 2, 3, 4)):
                jobs.append(job("HDecodeT", [n, zeros, hexa], witness_every=10))
    for which in range(7):
        for n in range(0, 5 if tier == "quick" else 7):
            jobs.append(job("HDecodeBig", [n, which], witness_every=10))
    c.run_group("T-decoder-zeros", URL, jobs, expect_labels=["checked"])
    jobs = []
    schemes = range(4)
    names = ["javascript:", "vbscript:", "data:", "view-source:"]
    hexl = "abcdefABCDEF0123456789"
    for sch in schemes:
        nm = names[sch]
        L = len(nm)
        for form in range(5):
            zs = (0,) if form == 0 else ((0, 2) if (tier != "quick" or sch == 0) else (0,))
            if tier != "quick" and form != 0:
                zs = (0, 1, 2, 4)
            for zeros in zs:
                jobs.append(job("HUrl", [sch, form, 0, 0, zeros, 1, -1, 1], witness_every=3))
        # exactly one character encoded, all positions, each encoded form; a reference without ';' must not be
        # followed by a literal digit of its base (then it would be a different reference)
        for pos in range(L):
            for f2 in ((1, 4) if tier == "quick" else (1, 2, 3, 4)):
                if f2 == 4 and pos + 1 < L and nm[pos + 1] in hexl:
                    continue
                jobs.append(job("HUrl", [sch, 0, f2, 1 << pos, 1, 0, -1, 1], witness_every=3))
        # NUL / LF inserted after each scheme character; leading junk of 2-3 bytes
        for pos in range(L - 1):
            jobs.append(job("HUrl", [sch, 0, 0, 0, 0, 0, pos, 0], witness_every=3))
            if tier != "quick":
                jobs.append(job("HUrl", [sch, 3, 0, 0, 0, 0, pos, 0], witness_every=3))
        for junk in (2, 3):
            jobs.append(job("HUrl", [sch, 0, 0, 0, 0, junk, -1, 2 if tier != "quick" else 1], witness_every=3))
    for sch in range(4):
        for kind in range(6):
            for L in ((70,) if tier == "quick" else (40, 64, 70, 130)):
                if kind == 2 and L != 70:
                    continue
                jobs.append(job("HUrlLong", [sch, kind, L], witness_every=3, max_witness=1))
    c.run_group("T-url", URL, jobs, expect_labels=["checked"])
    return c.finish("model_checking", "character-reference decoder vs reference decoder on every string <= %d bytes; scheme templates (4 schemes x encodings x leading zeros x leading junk x NUL/LF position, letter and hex-digit case symbolic, free tail)" % ND,
                    {"decoder_free_bytes": ND, "templates": len(jobs)})


SPECXSS = BASE + H("h_xss_units.go", "h_spec_xss.go") + S("entity.go", "h5tok.go", "strlit.go")


def c07(tier, seed):
    c = Check("C07", tier, seed)
    NW, NS, NC, NX = (4, 5, 6, 4) if tier == "quick" else (6, 7, 8, 5)
    jobs = []
    for ctx in range(5):
        jobs += wjobs("HSpecH5", NW + 1, extra=[ctx], partition=XSS_PARTS, split_from=5)
        jobs += wjobs("HSpecXss", NW, extra=[ctx], partition=XSS_PARTS, split_from=4)
    jobs.append(job("HSpecXss", [3, 1], paranoid=True))
    c.run_group("W-tokens-verdict", SPECXSS, jobs, expect_labels=["checked"])
    c.run_group("W-api", SPECXSS, wjobs("HSpecIsXSS", NX, partition=XSS_PARTS, split_from=4), expect_labels=["checked"])
    jobs = []
    for st in range(22):
        for n in range(0, NS + 1):
            for p in (0, 1):
                if p <= n:
                    jobs.append(job("HSpecH5State", [n, st, p], witness_every=40))
    c.run_group("U-states", SPECXSS, jobs, expect_labels=["checked"])
    jobs = []
    for w in range(4):
        jobs += wjobs("HSpecClass", NC, extra=[w], partition=XSS_PARTS, split_from=6)
    c.run_group("U-classifiers", SPECXSS, jobs, expect_labels=["checked"])
    jobs = []
    step = 6 if tier == "quick" else 1
    for i in range(seed % step, NEVENTS, step):
        jobs.append(job("HSpecNameT", [0, i, (i + seed) % 5], witness_every=8, max_witness=1))
    for i in range(NBLACKS):
        for ctx in ((i % 5,) if tier == "quick" else range(5)):
            jobs.append(job("HSpecNameT", [1, i, ctx], witness_every=8, max_witness=1))
    for i in range(NTAGS):
        for ctx in ((i % 5,) if tier == "quick" else range(5)):
            jobs.append(job("HSpecNameT", [2, i, ctx], witness_every=8, max_witness=1))
    c.run_group("T-names", SPECXSS + H("gen_vocab.go", "h_xss_tpl.go", "h_spec_xss_tpl.go"), jobs, expect_labels=["checked"])
    jobs = []
    for w in range(10):
        for ctx in (0, 1):
            for n in range(0, 4 if tier == "quick" else 6):
                jobs.append(job("HSpecOpener", [n, w, ctx], witness_every=30))
    c.run_group("T-openers", SPECXSS, jobs, expect_labels=["checked"])
    jobs = []
    for which in range(7):
        for n in range(0, 5 if tier == "quick" else 7):
            jobs.append(job("HDecodeBig", [n, which], witness_every=10))
    c.run_group("T-decoder-big-values", URL, jobs, expect_labels=["checked"])
    c.assumptions.append("text that reaches a Unicode case-folding call is ASCII (other paths are closed as excluded and counted)")
    return c.finish("model_checking", "implementation vs independently written reference (spec/h5tok.go): token streams from the 5 start contexts (inputs <= %d), from each of the 22 states at offsets 0/1 (inputs <= %d), context verdicts (inputs <= %d), IsXSS (inputs <= %d), classifiers on free strings <= %d" % (NW + 1, NS, NW, NX, NC),
                    {"W_free_bytes": NW, "state_free_bytes": NS, "classifier_free_bytes": NC, "api_free_bytes": NX})


XSST = BASE + H("gen_vocab.go", "h_xss_tpl.go")
NTAGS, NEVENTS, NBLACKS = 22, 319, 20


def attr_shapes(tier, idx, ctx):
    """(sep, eq, q, end, nul) shapes for one attribute vector; sep 2 (no separator) only after a closing quote"""
    base = [(0, 0, 0, 0, 0)]
    extra = [(1, 3, 1, 1, 0), (2, 1, 2, 0, 0), (3, 2, 3, 1, 2), (0, 0, 0, 1, 1), (1, 0, 2, 0, 3), (2, 3, 0, 1, 0), (0, 2, 1, 0, 4), (3, 1, 3, 0, 0),
             (4, 0, 0, 0, 0), (5, 3, 1, 0, 0), (6, 0, 2, 1, 0), (7, 1, 0, 0, 0), (8, 0, 3, 0, 2), (9, 2, 0, 1, 0)]
    if tier == "quick":
        shapes = base + [extra[idx % len(extra)], extra[(idx * 5 + ctx + 8) % len(extra)]]
    else:
        shapes = base + extra + [(s, e, q, 0, 0) for s in range(10) for e in (0, 3) for q in range(4)]
    out = []
    for (sep, eq, q, end, nul) in shapes:
        if sep == 2 and ctx < 2:
            sep = 0
        if q == 0 and end == 1 and False:
            pass
        out.append((sep, eq, q, end, nul))
    return sorted(set(out))


def c04(tier, seed):
    c = Check("C04", tier, seed)
    jobs = []
    for i in range(NTAGS):
        for ctx in range(5):
            for end, nul in ((0, 0), (1, 0), (0, 2)) if tier == "quick" else ((0, 0), (1, 0), (2, 0), (3, 0), (4, 0), (0, 1), (0, 2), (1, 3)):
                jobs.append(job("HXssTagT", [i, ctx, end, nul], safety=True, witness_every=2))
    c.run_group("T-tags", XSST, jobs, expect_labels=["checked"])
    jobs = []
    for i in range(NEVENTS):
        for ctx in range(5):
            for (sep, eq, q, end, nul) in attr_shapes(tier, i, ctx):
                jobs.append(job("HXssAttrT", [0, i, ctx, sep, eq, q, end, nul], safety=True, witness_every=2, max_witness=1))
    c.run_group("T-events", XSST, jobs, expect_labels=["checked"])
    jobs = []
    for i in range(NBLACKS):
        for ctx in range(5):
            for (sep, eq, q, end, nul) in attr_shapes("thorough" if tier != "quick" else "quick", i, ctx) + ([(1, 3, 2, 0, 0), (3, 0, 1, 1, 2)] if tier == "quick" else []):
                jobs.append(job("HXssAttrT", [1, i, ctx, sep, eq, q, end, nul], safety=True, witness_every=2, max_witness=1))
    for i in range(2):
        for ctx in range(5):
            for (sep, eq, q, end, nul) in attr_shapes("thorough", i, ctx):
                jobs.append(job("HXssAttrT", [2, i, ctx, sep, eq, q, end, nul], safety=True, witness_every=2, max_witness=1))
    c.run_group("T-attributes", XSST, jobs, expect_labels=["checked"])
    jobs = []
    for w in range(8):
        for ctx in range(5):
            for tail in ((0, 1) if tier == "quick" else (0, 1, 2, 3)):
                jobs.append(job("HXssMarkupT", [w, ctx, tail], safety=True, witness_every=2))
    c.run_group("T-markup", XSST, jobs, expect_labels=["checked"])
    # URL schemes through character references / leading junk / embedded NUL-LF (the harness of C19, a slice of its shapes)
    jobs = []
    names = ["javascript:", "vbscript:", "data:", "view-source:"]
    for sch in range(4):
        for form in ((1, 2, 4) if tier == "quick" else (1, 2, 3, 4)):
            jobs.append(job("HUrl", [sch, form, 0, 0, 0 if tier == "quick" else 2, 1, -1, 1], witness_every=3))
        for pos in range(0, len(names[sch]), 3 if tier == "quick" else 1):
            jobs.append(job("HUrl", [sch, 0, 2, 1 << pos, 1, 0, -1, 1], witness_every=3))
            jobs.append(job("HUrl", [sch, 0, 0, 0, 0, 1, pos, 0], witness_every=3))
    c.run_group("T-url-encodings", URL, jobs, expect_labels=["checked"])
    return c.finish("model_checking", "every baseline black element (22), event handler (319), black attribute (20), xmlns/xlink, and 8 markup forms, in each of the 5 injection contexts, with symbolic letter case, separator and whitespace bytes, value byte, and NUL position; shapes (separator x '=' spacing x quoting x end x NUL) enumerated: %s" % ("base + one rotating shape per name" if tier == "quick" else "base + 8 mixed + separator x spacing x quoting grid"),
                    {"vectors": "baseline vocabulary x contexts x shapes", "tier_shapes": tier})


def c05(tier, seed):
    import subprocess
    c = Check("C05", tier, seed)
    C5 = BASE + H("h_c05.go")
    # (1) frame condition on every explored path: a write to an object reachable from a package variable is a violation
    NS, NX, NT = (3, 4, 2) if tier == "quick" else (4, 5, 3)
    jobs = []
    jobs += wjobs("HFrameSqli", NS, safety=True, frame=True)
    for ctx in range(5):
        jobs += wjobs("HFrameXss", NX, extra=[ctx], partition=XSS_PARTS, split_from=5, safety=True, frame=True)
    for w in range(10):
        for n in range(0, NT + 1):
            jobs.append(job("HFrameSqlT", [w, n], safety=True, frame=True, witness_every=50))
            jobs.append(job("HFrameXssT", [w, n], safety=True, frame=True, witness_every=50))

    race_log = []

    def confirm(v, nat_res, r):
        if v["msg"].startswith("frame condition"):
            hexin = ""
            for o in v.get("obs") or []:
                if o[0] == "input":
                    hexin = o[1]
            if sum(1 for x in race_log if x["race_detected"]) >= 2 or len(race_log) >= 4:
                return None
            got, out = c.nat.race(hexin)
            race_log.append({"input": v["text"], "race_detected": got})
            return got
        return engine_to_native_ok(v, nat_res)

    c.run_group("frame", C5, jobs, expect_labels=["done"], confirm=confirm)
    # (2) history independence
    jobs = []
    sizes = ((1, 1), (2, 1), (1, 2)) if tier == "quick" else ((1, 1), (2, 1), (1, 2), (2, 2))
    for nx, ny in sizes:
        jobs += part_jobs("HHistSqli", [nx, ny], SQL_PARTS, safety=True, witness_every=500) if nx >= 2 else [job("HHistSqli", [nx, ny], safety=True, witness_every=100)]
    for nx, ny in (((1, 1), (2, 2), (3, 1)) if tier == "quick" else ((1, 1), (2, 2), (3, 2), (2, 3))):
        jobs += part_jobs("HHistXss", [nx, ny], XSS_PARTS, safety=True, witness_every=500) if nx >= 2 else [job("HHistXss", [nx, ny], safety=True, witness_every=100)]
    jobs.append(job("HHistCross", [1, 1], safety=True, witness_every=100))
    if tier != "quick":
        jobs += part_jobs("HHistCross", [2, 1], SQL_PARTS, safety=True, witness_every=500)
    for w in range(6):
        for n in range(0, 3 if tier == "quick" else 4):
            jobs.append(job("HHistXssT", [w, n], safety=True, witness_every=50))
        for n in range(0, 2 if tier == "quick" else 3):
            jobs.append(job("HHistSqliT", [w, n], safety=True, witness_every=50))
    c.run_group("history", C5, jobs, expect_labels=["checked"])
    # (3) audit of the encoder's precondition over the whole package (flow-insensitive; not the deciding step)
    ensure_engine()
    r = subprocess.run([BIN, "audit", "-repo", REPO], capture_output=True, text=True, env=ENV)
    try:
        aud = json.loads(r.stdout)
    except Exception:
        raise Inconclusive("audit failed: " + (r.stdout + r.stderr)[-1500:])
    findings = aud.get("findings") or []
    c.extra_cov["static_audit"] = {"functions": aud.get("functions"), "findings": findings, "note": "stores/appends/copies through addresses derived from package variables, map updates, go/chan/sync/atomic/unsafe use outside init"}
    c.extra_cov["race_detector_runs"] = race_log
    if findings and not c.violations:
        for f in findings[:10]:
            c.inconclusive.append("static audit: %s in %s at %s, not reached (or not confirmed as a data race / history dependence) by the explored paths" % (f["what"], f["fn"], f["pos"]))
    c.assumptions.append("from 'no write to shared memory on any explored path' to 'no data race under any schedule' is the standard argument (two calls that share only read-only memory cannot race); schedules themselves are not executed")
    return c.finish("model_checking", "frame condition (no write to objects reachable from package variables) on every path of IsSQLi (inputs <= %d), isXSS in 5 contexts (<= %d) and 20 long templates + <= %d free bytes; history independence x,y,x for both detectors at small sizes; whole-package audit of global writes" % (NS, NX, NT),
                    {"frame_sqli_free_bytes": NS, "frame_xss_free_bytes": NX, "template_tail": NT, "history_sizes": [list(x) for x in sizes]})


COST = BASE + H("h_sqli.go", "h_xss_units.go", "h_cost.go")


def c09(tier, seed):
    c = Check("C09", tier, seed)
    PB, SL = 48, 96  # frozen constants: abstract cost per byte, additive slack (measured worst cases: 18.2 per byte, +99)
    K = 16 if tier == "quick" else 24
    timing_log = []
    pump_log = []

    def confirm(v, nat_res, r):
        msg = v["msg"]
        if "call depth" in msg:
            obs = dict((o[0], o[1]) for o in (v.get("obs") or []))
            if "unit" not in obs:
                return False
            if len(pump_log) >= 3:
                return None
            unit = bytes.fromhex(obs["unit"])
            got, info = c.nat.pump(unit, prefixes=(bytes.fromhex(obs.get("pre", "")),), lens=(len(unit),))
            pump_log.append({"input": v["text"], "confirmed": got, "info": info})
            return got
        if "cost" in msg or "doubling" in msg:
            obs = dict((o[0], o[1]) for o in (v.get("obs") or []))
            if "unit" not in obs:
                return False
            api = "sqli" if (r["entry"] == "HRepeatSqli" or (r["entry"] == "HRepeatFree" and r["args"][2] == 0)) else "xss"
            if sum(1 for t in timing_log if t["native"].get("ratio", 0) >= 7.0) >= 2 or len(timing_log) >= 6:
                return None  # at most a few native timing runs per check (each runs the quadratic input at 64 kB+)
            t = c.nat.timing(obs.get("pre", ""), obs["unit"], api, obs.get("post", ""))
            timing_log.append({"entry": r["entry"], "args": r["args"], "input": v["text"], "native": t})
            return t.get("ratio", 0) >= 7.0
        return engine_to_native_ok(v, nat_res)

    jobs = []
    for u in range(49):
        for pre in ((0, 1, 4) if tier == "quick" else (0, 1, 2, 3, 4, 5, 6)):
            for holes in (0, 1):
                jobs.append(job("HRepeatSqli", [u, holes, K, pre, PB, SL], safety=True, witness_every=50, max_witness=1, maxsteps=60000000))
    for u in range(41):
        for pre in ((0, 1, 4, 7, 8, 9, 10) if tier == "quick" else range(11)):
            for holes in ((0, 1) if pre < 4 else (0,)):  # (terminator suffixes 7-10: lone dash / percent / bracket far from the opener) inside a URL attribute value a free byte multiplies the decoder's paths by the repetition count
                jobs.append(job("HRepeatXss", [u, holes, K, pre, PB, SL], safety=True, witness_every=50, max_witness=1, maxsteps=60000000))
    c.run_group("T-families", COST, jobs, expect_labels=["checked"], confirm=confirm)
    jobs = []
    for which in range(6):
        # functional mode: a run of k high bytes in case-folded text would fork the blob length 3k ways; such inputs are excluded here
        jobs.append(job("HRepeatFree", [1, K + 8, which, PB, SL], witness_every=50))
        part = SQL_PARTS if which == 0 else XSS_PARTS
        jobs += part_jobs("HRepeatFree", [2, K // 2 + 4, which, PB, SL], part, witness_every=200)
        if tier != "quick" and which != 0:
            jobs += part_jobs("HRepeatFree", [3, K // 3 + 2, which, PB, SL], part, witness_every=500)
    c.run_group("W-free-units", COST, jobs, expect_labels=["checked"], confirm=confirm)
    # unit level: cost of one call linear in the bytes consumed (constants fixed from the functions' structure)
    NS, NL, NT, NUR = (8, 4, 6, 5) if tier == "quick" else (10, 5, 8, 6)
    jobs = [job("HCostStrCore", [n, 4, 8], safety=True) for n in range(1, NS + 1)]  # measured 2n-1; a quadratic scanner reaches 65 at n=8
    for f in (0, 1, 2):
        jobs += wjobs("HCostLex", NL, extra=[f, 16, 2400], safety=True)
    for st in range(22):
        for n in range(0, NT + 1):
            jobs.append(job("HCostState", [n, st, 4, 8], safety=True))
    jobs += wjobs("HCostURL", NUR, extra=[24, 64], partition=XSS_PARTS, split_from=5, safety=True)
    c.run_group("U-units", COST, jobs, expect_labels=["checked"], confirm=confirm)
    c.extra_cov["native_timing_runs"] = timing_log
    c.extra_cov["native_pump_runs"] = pump_log
    c.extra_cov["cost_model"] = "abstract cost = input bytes examined: one unit per byte scanned by IndexByte/Index/Contains/HasPrefix (up to and including the match), per byte compared by string ==, copied by + / ToUpper / ToLower / ReplaceAll / copy, per explicit s[i], per key byte of a map look-up"
    c.assumptions.append("abstract cost model, not wall-clock time; constants frozen: %d per byte, slack %d, doubling ratio <= 2.25" % (PB, SL))
    return c.finish("other", "worst-case abstract cost over all feasible paths: 68 repetition families (unit^k vs unit^2k, k=%d, with 0/1 free bytes in the unit, 2-4 context prefixes), every 1- and 2-byte free unit for IsSQLi and the 5 XSS contexts, and per-call bounds for the string scanner (<= %d bytes), scan steps, every tokenizer state and the URL matcher" % (K, NS),
                    {"k": K, "per_byte": PB, "slack": SL, "strcore_free_bytes": NS})


SQLT = BASE + H("h_sqli.go", "h_sql_tpl.go")
NCTX, NATK, NTAIL, NSEP = 10, 52, 9, 4
NNEAR = 65
GRAMMAR = os.path.join(VERIF, "grammar", "sqli.json")


def sql_grammar():
    """the calibrated grammar: all (ctx, attack, sep, tail) derivations minus the exclusions recorded at calibration"""
    g = json.load(open(GRAMMAR)) if os.path.exists(GRAMMAR) else {"excluded": []}
    ex = set(tuple(e["derivation"]) for e in g["excluded"])
    return [(c, a, sp, t) for c in range(NCTX) for a in range(NATK) for sp in range(NSEP) for t in range(NTAIL) if (c, a, sp, t) not in ex], g


def c03(tier, seed):
    c = Check("C03", tier, seed)
    allg, g = sql_grammar()
    if tier == "calibrate":
        sel = [(cx, a, sp, t) for cx in range(NCTX) for a in range(NATK) for sp in range(NSEP) for t in range(NTAIL)]
    elif tier == "quick":
        # every (context, attack) pair with one rotating (separator, tail) choice, plus every (attack, sep, tail) in the first three contexts' rotation
        sel = [d for d in allg if (d[2] * NTAIL + d[3]) % (NSEP * NTAIL) == (d[0] * 7 + d[1] * 5 + seed) % (NSEP * NTAIL)]
        sel += [d for d in allg if d[0] == (d[1] + d[2] + d[3]) % 3 and (d[1] + d[3]) % 4 == seed % 4]
        sel = sorted(set(sel))
    else:
        sel = allg
    jobs = [job("HSqlAttack", list(d), safety=True, witness_every=4, max_witness=1) for d in sel]
    rs = c.run_group("T-attacks", SQLT, jobs, expect_labels=["checked"] if tier != "calibrate" else ())
    if tier == "calibrate":
        bad = []
        for r in rs:
            if r.get("violations"):
                v = r["violations"][0]
                bad.append({"derivation": r["args"], "reason": "not detected for all hole values on the tree the grammar was calibrated on (e.g. %s)" % v["text"][:120]})
        json.dump({"calibrated_on": subprocess_out("git -C %s rev-parse --short HEAD" % REPO), "derivations_total": len(sel), "excluded": bad,
                   "note": "G_sqli = contexts x attacks x separator shapes x tails of harness/h_sql_tpl.go minus the exclusions; frozen after calibration, so a later loss of detection is a violation"}, open(GRAMMAR, "w"), indent=1)
        log("calibration: %d of %d derivations excluded" % (len(bad), len(sel)))
        c.violations, c.unconfirmed = [], []
    c.extra_cov["grammar"] = {"derivations_in_grammar": len(allg), "explored_this_run": len(sel), "excluded_at_calibration": len(g.get("excluded", []))}
    return c.finish("model_checking", "attack grammar (10 context prefixes x 48 attack bodies x 4 separator shapes x 9 tails, calibrated): %d derivations explored, each with symbolic letter case, whitespace bytes (all 8 SQL whitespace bytes), digits and identifier letters" % len(sel),
                    {"derivations": len(sel)})


def subprocess_out(cmd):
    import subprocess
    return subprocess.run(cmd, shell=True, capture_output=True, text=True).stdout.strip()


def c14(tier, seed):
    c = Check("C14", tier, seed)
    jobs = [job("HBlacklistN1", [l], safety=True, witness_every=1) for l in range(1, 6)]
    c.run_group("blacklist-n1", SQLT, jobs, expect_labels=["checked"])
    jobs = []
    K = 4 if tier == "quick" else 5
    for k in range(1, K + 1):
        for mask in range(1 << k):
            for wl, nl in (((3, 2), (2, 1)) if tier == "quick" else ((2, 1), (3, 2), (4, 3))):
                if k >= 4 and bin(mask).count("0") - (len(bin(mask)) - 2 - k) > 3 and tier == "quick":
                    pass
                jobs.append(job("HBenign", [k, mask, wl, nl], safety=True, witness_every=200, max_witness=1))
    # longer sentences: at most 2 identifiers, the rest numbers (identifiers fork 8 ways on their first letter)
    for k in (6, 7):
        for mask in range(1 << k):
            if k - bin(mask).count("1") <= (1 if tier == "quick" else 2):
                jobs.append(job("HBenign", [k, mask, 3, 2], safety=True, witness_every=200, max_witness=1))
    for shape in range(7):
        for wl in ((3,) if tier == "quick" else (2, 3, 4)):
            jobs.append(job("HBenignShape", [shape, wl], safety=True, witness_every=200, max_witness=1))
    c.run_group("T-benign", SQLT, jobs, expect_labels=["checked"])
    # one free identifier among fixed fillers: longer words than the all-free sentences reach
    jobs = []
    K1, WLS = (5, (2, 3, 4, 5, 6, 8, 10)) if tier == "quick" else (6, (2, 3, 4, 5, 6, 7, 8, 9, 10, 12, 16))
    for k in range(1, K1 + 1):
        for pos in range(k):
            for mask in range(1 << k):
                if mask & (1 << pos):
                    continue
                for wl in WLS:
                    jobs.append(job("HBenignOne", [k, mask, pos, wl], safety=True, witness_every=200, max_witness=1))
    c.run_group("T-benign-one", SQLT, jobs, expect_labels=["checked"])
    return c.finish("model_checking", "no {n,1} fingerprint of length 1-5 is blacklisted (symbolic fingerprint through the real blacklist()); sentences of k <= %d items (every number/identifier pattern; identifiers of free letters that are not a component of any keyword-table key); k = 6,7 with few identifiers; e-mail / decimal / sentence shapes; sentences of k <= %d fixed fillers with one free identifier of up to %d bytes at every position" % (K, K1, max(WLS)),
                    {"max_items_complete": K, "one_free_word_items": K1, "one_free_word_len": max(WLS)})


def c10(tier, seed):
    c = Check("C10", tier, seed)
    NW, NU = (2, 4) if tier == "quick" else (3, 5)
    jobs = wjobs("HSqliCase", NW, split_from=2)
    c.run_group("W-flip", BASE + H("h_sqli.go", "h_case.go"), jobs, expect_labels=["checked"])
    jobs = []
    for f in range(5):
        jobs += wjobs("HLexCase", NU, extra=[f], split_from=4)
    c.run_group("U-first-token", BASE + H("h_sqli.go", "h_case.go"), jobs, expect_labels=["checked"])
    allg, g = sql_grammar()
    sel = sorted(set((d[0], d[1], d[3]) for d in allg if tier != "quick" or (d[0] + d[1] + d[3]) % 3 == seed % 3))
    jobs = [job("HSqlCaseT", list(d), witness_every=4, max_witness=1) for d in sel]
    c.run_group("T-attacks", SQLT, jobs, expect_labels=["checked"])
    c.assumptions.append("W/U inputs contain no backslash, no '$' and no q' opener (the property's exempt positions); text reaching Unicode case folding is ASCII")
    return c.finish("model_checking", "IsSQLi(s) = IsSQLi(flip(s)) for every input <= %d bytes and every flip mask; first token of s and flip(s) agree in class/offsets in 5 modes for inputs <= %d; two independent case assignments of every attack template" % (NW, NU),
                    {"W_free_bytes": NW, "U_free_bytes": NU, "templates": len(sel)})


def c11(tier, seed):
    c = Check("C11", tier, seed)
    NW, NC, NN, NB = (3, 4, 4, 5) if tier == "quick" else (4, 5, 5, 7)
    jobs = wjobs("HXssCase", NW, partition=XSS_PARTS, split_from=3)
    for ctx in range(5):
        jobs += wjobs("HXssCaseCtx", NC, extra=[ctx], partition=XSS_PARTS, split_from=4)
    c.run_group("W-case", XSSA, jobs, expect_labels=["checked"])
    jobs = []
    for ctx in range(5):
        for n in range(2, NN + 1):
            for k in range(1, n):
                jobs.append(job("HXssNul", [n, ctx, k], witness_every=50))
    c.run_group("W-nul", XSSA, jobs)
    jobs = []
    for n in range(2, NB + 1):
        for k in range(1, n):
            jobs.append(job("HBlackTagNul", [n, k], witness_every=50))
            jobs.append(job("HBlackAttrNul", [n, k], witness_every=50))
    for w in range(3):
        jobs += wjobs("HBlackCase", NB - 1, extra=[w], partition=XSS_PARTS, split_from=4)
    c.run_group("U-classifiers", XSSA, jobs, expect_labels=["checked"])
    # templates: every baseline name classified the same under two case assignments / with a NUL at every interior position
    jobs = []
    step = 1 if tier != "quick" else 4
    for i in range(seed % step, NEVENTS, step):
        jobs.append(job("HNameInvT", [0, i], witness_every=5, max_witness=1))
    for i in range(NBLACKS):
        jobs.append(job("HNameInvT", [1, i], witness_every=5, max_witness=1))
    for i in range(NTAGS):
        jobs.append(job("HNameInvT", [2, i], witness_every=5, max_witness=1))
    for run in ((3, 40, 130) if tier == "quick" else (2, 3, 5, 9, 17, 31, 32, 33, 47, 48, 63, 64, 65, 127, 128, 129, 255, 256, 257, 1000)):
        for kind, n, st in ((0, NEVENTS, 9 if tier == "quick" else 2), (1, NBLACKS, 2 if tier == "quick" else 1), (2, NTAGS, 3 if tier == "quick" else 1)):
            for i in range((seed + run) % st, n, st):
                jobs.append(job("HNameNulRunT", [kind, i, run], witness_every=5, max_witness=1))
    c.run_group("T-names", XSST + H("h_xss_inv.go", "h_url.go") + S("entity.go", "strlit.go"), jobs, expect_labels=["checked"])
    jobs = []
    names = ["javascript:", "vbscript:", "data:", "view-source:"]
    for sch in range(4):
        L = len(names[sch])
        for form in (3, 4):
            jobs.append(job("HUrlCaseT", [sch, 3, (1 << L) - 1], witness_every=3, max_witness=1))
            for pos in range(0, L, 2 if tier == "quick" else 1):
                if form == 4 and pos + 1 < L and names[sch][pos + 1] in "abcdefABCDEF0123456789":
                    continue
                jobs.append(job("HUrlCaseT", [sch, form, 1 << pos], witness_every=3, max_witness=1))
    c.run_group("T-url-case", XSST + H("h_xss_inv.go", "h_url.go") + S("entity.go", "strlit.go"), jobs, expect_labels=["checked"])
    c.assumptions.append("text reaching Unicode case folding is ASCII (other paths are closed as excluded and counted)")
    return c.finish("model_checking", "IsXSS(s) = IsXSS(flip(s)) for inputs <= %d, per context <= %d; NUL inserted strictly inside a name token of (s, ctx) for inputs <= %d; classifiers under NUL insertion / case flips for names <= %d; every baseline name under case re-assignment and NUL insertion at every interior position" % (NW, NC, NN, NB),
                    {"W_free_bytes": NW, "ctx_free_bytes": NC, "nul_free_bytes": NN, "classifier_free_bytes": NB})


PROPS = {"C03": c03, "C10": c10, "C11": c11, "C14": c14, "C09": c09, "C05": c05, "C04": c04, "C07": c07, "C06": c06, "C19": c19, "C20": c20, "C01": c01, "C02": c02, "C08": c08, "C12": c12, "C13": c13, "C15": c15, "C16": c16, "C17": c17, "C18": c18}



def replay_saved(path):
    rec = json.load(open(path))
    prop = rec.get("property", "?")
    overlays = BASE + [os.path.join(HARNESS_DIR, f) for f in sorted(os.listdir(HARNESS_DIR)) if f.startswith("h_") and f.endswith(".go")] + \
        [os.path.join(SPEC_DIR, f) for f in sorted(os.listdir(SPEC_DIR)) if f.endswith(".go")]
    nat = Native(overlays)
    try:
        out = nat.replay([{"id": "r", "entry": rec["entry"], "args": rec["args"], "vals": rec["vals"]}])
    finally:
        nat.close()
    r = out.get("r", {})
    print("replay %s: entry=%s args=%s input=%s -> native outcome=%s msg=%s site=%s" % (path, rec["entry"], rec["args"], rec.get("input"), r.get("outcome"), r.get("msg"), r.get("site")))
    if r.get("outcome") in ("panic", "crash", "assert", "timeout"):
        print("VIOLATION property=%s replay=%s" % (prop, path))
        return 1
    return 0
