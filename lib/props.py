"""Per-property job tables (DESIGN.md section 7)."""
import json, os, sys
from runner import *

# first-byte partitions used to spread one whole-API exploration over the worker pool (ranges are inclusive);
# together they cover 0..255, so the union of the jobs is the complete exploration.
def parts(bounds):
    out, lo = [], 0
    for b in bounds:
        out.append([lo, b])
        lo = b + 1
    assert lo == 256
    return out

SQL_PARTS = parts([32, 33, 34, 35, 36, 38, 39, 41, 44, 45, 46, 47, 48, 57, 63, 64, 65, 66, 68, 69, 77, 78, 80, 81, 84, 85, 87, 88, 90,
                   91, 92, 96, 97, 98, 100, 101, 109, 110, 112, 113, 116, 117, 119, 120, 122, 127, 255])
XSS_PARTS = parts([31, 33, 34, 38, 39, 46, 47, 59, 60, 61, 62, 95, 96, 127, 255])


def part_jobs(entry, args, partition, **kw):
    return [job(entry, args, part=p, **kw) for p in partition]


def c01(tier, seed):
    c = Check("C01", tier, seed)
    N = 3 if tier == "quick" else 4
    jobs = []
    for n in range(0, N + 1):
        if n <= 1:
            jobs.append(job("HSqliTotal", [n], safety=True, witness_every=5))
        else:
            jobs += part_jobs("HSqliTotal", [n], SQL_PARTS, safety=True, witness_every=200 if n >= 3 else 20)
    c.run_group("W", BASE + H("h_total.go"), jobs)
    return c.finish("model_checking", "one symbolic path per feasible path condition of IsSQLi over every byte string of length <= %d; each path's index/slice/nil/division obligations decided by z3 or the byte-domain procedure" % N,
                    {"W_free_bytes": N})


def c02(tier, seed):
    c = Check("C02", tier, seed)
    N = 4 if tier == "quick" else 6
    jobs = []
    for ctx in range(5):
        for n in range(0, N + 1):
            jobs.append(job("HXssCtxTotal", [n, ctx], safety=True, witness_every=20))
    c.run_group("W", BASE + H("h_total.go"), jobs)
    return c.finish("model_checking", "isXSS in each of the 5 contexts over every byte string of length <= %d" % N, {"W_free_bytes": N})


PROPS = {"C01": c01, "C02": c02}


def replay_saved(path):
    rec = json.load(open(path))
    prop = rec.get("property", "?")
    overlays = BASE + [os.path.join(HARNESS_DIR, f) for f in sorted(os.listdir(HARNESS_DIR)) if f.startswith("h_") and f.endswith(".go")] + \
        [os.path.join(SPEC_DIR, f) for f in sorted(os.listdir(SPEC_DIR)) if f.endswith(".go")]
    nat = Native(overlays)
    try:
        out = nat.replay([{"id": "r", "entry": rec["entry"], "args": rec["args"], "vals": rec["vals"]}])
    finally:
        nat.close()
    r = out.get("r", {})
    print("replay %s: entry=%s args=%s input=%s -> native outcome=%s msg=%s site=%s" % (path, rec["entry"], rec["args"], rec.get("input"), r.get("outcome"), r.get("msg"), r.get("site")))
    if r.get("outcome") in ("panic", "crash", "assert", "timeout"):
        print("VIOLATION property=%s replay=%s" % (prop, path))
        return 1
    return 0
