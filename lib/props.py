"""Per-property job tables (DESIGN.md section 7)."""
import json, os, sys
from runner import *

# first-byte partitions used to spread one whole-API exploration over the worker pool (ranges are inclusive);
# together they cover 0..255, so the union of the jobs is the complete exploration.
def parts(bounds):
    out, lo = [], 0
    for b in bounds:
        out.append([lo, b])
        lo = b + 1
    assert lo == 256
    return out

SQL_PARTS = parts([32, 33, 34, 35, 36, 38, 39, 41, 44, 45, 46, 47, 48, 57, 63, 64, 65, 66, 68, 69, 77, 78, 80, 81, 84, 85, 87, 88, 90,
                   91, 92, 96, 97, 98, 100, 101, 109, 110, 112, 113, 116, 117, 119, 120, 122, 127, 255])
XSS_PARTS = parts([31, 33, 34, 38, 39, 46, 47, 59, 60, 61, 62, 95, 96, 127, 255])


def part_jobs(entry, args, partition, **kw):
    return [job(entry, args, part=p, **kw) for p in partition]


def c01(tier, seed):
    c = Check("C01", tier, seed)
    N = 3 if tier == "quick" else 4
    jobs = []
    for n in range(0, N + 1):
        if n <= 1:
            jobs.append(job("HSqliTotal", [n], safety=True, witness_every=5))
        else:
            jobs += part_jobs("HSqliTotal", [n], SQL_PARTS, safety=True, witness_every=200 if n >= 3 else 20)
    c.run_group("W", BASE + H("h_total.go"), jobs)
    return c.finish("model_checking", "one symbolic path per feasible path condition of IsSQLi over every byte string of length <= %d; each path's index/slice/nil/division obligations decided by z3 or the byte-domain procedure" % N,
                    {"W_free_bytes": N})


def c02(tier, seed):
    c = Check("C02", tier, seed)
    N = 4 if tier == "quick" else 6
    jobs = []
    for ctx in range(5):
        for n in range(0, N + 1):
            jobs.append(job("HXssCtxTotal", [n, ctx], safety=True, witness_every=20))
    c.run_group("W", BASE + H("h_total.go"), jobs)
    return c.finish("model_checking", "isXSS in each of the 5 contexts over every byte string of length <= %d" % N, {"W_free_bytes": N})


def c16(tier, seed):
    c = Check("C16", tier, seed)
    NU, NW = (5, 3) if tier == "quick" else (7, 4)
    jobs = []
    for f in range(5):
        for n in range(0, NU + 1):
            if n <= 3:
                jobs.append(job("HLex", [n, f], safety=True, witness_every=25))
            else:
                jobs += part_jobs("HLex", [n, f], SQL_PARTS, safety=True, witness_every=400)
    c.run_group("U-first-token", BASE + H("h_sqli.go"), jobs, expect_labels=["token", "end"])
    jobs = []
    for f in range(5):
        for n in range(0, NW + 1):
            if n <= 2:
                jobs.append(job("HStream", [n, f], safety=True, witness_every=25))
            else:
                jobs += part_jobs("HStream", [n, f], SQL_PARTS, safety=True, witness_every=400)
    c.run_group("W-stream", BASE + H("h_sqli.go"), jobs, expect_labels=["end"])
    return c.finish("model_checking", "per-token shape (value = input slice, clip, span, class) on the first scan step for all inputs <= %d bytes in 5 modes; chain conditions over the whole token stream for all inputs <= %d bytes in 5 modes" % (NU, NW),
                    {"U_free_bytes": NU, "W_free_bytes": NW, "modes": 5})



SQLI = BASE + H("h_sqli.go")
XSSU = BASE + H("h_xss_units.go")
XSSA = BASE + H("h_xss_api.go")
STR = BASE + H("h_strlit.go") + S("strlit.go")


def wjobs(entry, nmax, extra=(), partition=SQL_PARTS, split_from=3, **kw):
    """whole-API jobs for all lengths 0..nmax; lengths >= split_from are split on the first byte."""
    jobs = []
    for n in range(0, nmax + 1):
        if n < split_from:
            jobs.append(job(entry, [n] + list(extra), witness_every=kw.get("wsmall", 25), **{k: v for k, v in kw.items() if k not in ("wsmall", "wbig")}))
        else:
            jobs += part_jobs(entry, [n] + list(extra), partition, witness_every=kw.get("wbig", 400), **{k: v for k, v in kw.items() if k not in ("wsmall", "wbig")})
    return jobs


def c08(tier, seed):
    c = Check("C08", tier, seed)
    N = 3 if tier == "quick" else 4
    c.run_group("W-verdict-fp", SQLI, wjobs("HVerdictFp", N, safety=True), expect_labels=["negative", "positive"])
    jobs = []
    for f in range(5):
        jobs += wjobs("HFpLen", N, extra=[f], safety=True)
    c.run_group("W-fp-len", SQLI, jobs, expect_labels=["checked"])
    return c.finish("model_checking", "verdict/fingerprint relation of IsSQLi for all inputs <= %d bytes; per-context fingerprint length and alphabet for all inputs <= %d bytes in 5 modes" % (N, N), {"W_free_bytes": N})


def c12(tier, seed):
    c = Check("C12", tier, seed)
    N = 3 if tier == "quick" else 4
    c.run_group("W-cascade", SQLI, wjobs("HCascade", N, safety=True), expect_labels=["checked"])
    jobs = []
    for q in range(2):
        for my in range(2):
            jobs += [j for j in wjobs("HVirtualQuote", N, extra=[q, my], safety=True) if j["args"][0] >= 1]  # the property is stated for s != ""
    c.run_group("W-virtual-quote", SQLI, jobs, expect_labels=["checked"])
    return c.finish("model_checking", "IsSQLi vs the documented cascade evaluated on fresh state, and inside-quote vs quote+input as-is, for all inputs <= %d bytes" % N, {"W_free_bytes": N})


def c13(tier, seed):
    c = Check("C13", tier, seed)
    NO, NE, NP = (4, 5, 4) if tier == "quick" else (5, 6, 5)
    c.run_group("W-or", XSSA, wjobs("HXssOr", NO, partition=XSS_PARTS, split_from=4, safety=True), expect_labels=["checked"])
    jobs = []
    for ctx in range(1, 5):
        jobs += wjobs("HXssEmbed", NE, extra=[ctx], partition=XSS_PARTS, split_from=5, safety=True)
    c.run_group("W-embed", XSSA, jobs, expect_labels=["checked"])
    jobs = []
    for k in (1, 2):
        jobs += wjobs("HXssPrefix", NP, extra=[k], partition=XSS_PARTS, split_from=9, safety=True)
    c.run_group("W-prefix", XSSA, jobs, expect_labels=["checked"])
    return c.finish("model_checking", "IsXSS = OR of contexts (inputs <= %d); context verdict = verdict of embedded markup (inputs <= %d, 4 contexts); prefix without '<' (<= 2 bytes) + input <= %d" % (NO, NE, NP),
                    {"or_free_bytes": NO, "embed_free_bytes": NE, "prefix_free_bytes": NP})


def c15(tier, seed):
    c = Check("C15", tier, seed)
    NW, NC = (4, 6) if tier == "quick" else (5, 7)
    c.run_group("W", XSSA, wjobs("HXssNoLtEq", NW, partition=XSS_PARTS, split_from=4, safety=True), expect_labels=["checked"])
    jobs = []
    for ctx in range(5):
        jobs += wjobs("HXssNoLtEqCtx", NC, extra=[ctx], partition=XSS_PARTS, split_from=5, safety=True)
    c.run_group("W-ctx", XSSA, jobs, expect_labels=["checked"])
    return c.finish("model_checking", "IsXSS false for every string over bytes minus {<,=} of length <= %d; per context for length <= %d" % (NW, NC), {"W_free_bytes": NW, "ctx_free_bytes": NC})


def c17(tier, seed):
    c = Check("C17", tier, seed)
    NS, NC = (5, 7) if tier == "quick" else (7, 10)
    jobs = []
    for st in range(22):
        for n in range(0, NS + 1):
            for p in (0, 1):
                if p <= n:
                    jobs.append(job("HStateRun", [n, st, p], safety=True, witness_every=40))
    c.run_group("U-state-run", XSSU, jobs, expect_labels=["stopped"])
    jobs = []
    for w in range(9):
        for n in range(0, NC + 1):
            jobs.append(job("HConstruct", [n, w], safety=True, witness_every=20))
    for w in range(6):
        for n in range(0, NC + 1):
            jobs.append(job("HConstructAPI", [n, w], safety=True, witness_every=20))
    c.run_group("U-first-terminator", XSSU, jobs, expect_labels=["checked"])
    return c.finish("model_checking", "range/order/count of every token from each of the 22 tokenizer states on every input <= %d bytes (entry offsets 0 and 1); first-terminator oracle for the 9 delimited constructs on every body <= %d bytes" % (NS, NC),
                    {"state_run_free_bytes": NS, "construct_body_free_bytes": NC})


def c18(tier, seed):
    c = Check("C18", tier, seed)
    N = 7 if tier == "quick" else 10
    jobs = []
    for mode in range(3):
        for n in range(max(1, mode), N + 1):
            jobs.append(job("HStrCore", [n, mode], safety=True, witness_every=20))
    for form in range(8):
        for f in range(5):
            if (form <= 6) != (f <= 1):
                continue
            lo = {0: 1, 1: 1, 2: 2, 3: 2, 4: 3, 5: 2, 6: 3, 7: 1}[form]
            for n in range(lo, N):
                jobs.append(job("HStrLex", [n, form, f], safety=True, witness_every=20))
    for nq in range(2):
        for n in range(3 + nq, N + 2):
            jobs.append(job("HQStr", [n, nq], safety=True, witness_every=10))
    for k in range(0, 4):
        for n in range(k + 2, N + 2):
            jobs.append(job("HDollar", [n, k], safety=True, witness_every=10))
    c.run_group("U-literals", STR, jobs, expect_labels=["checked"])
    return c.finish("model_checking", "every literal form (quoted real/virtual/prefixed/variable, q-quote with any delimiter byte >= 33, dollar-quote with tags of 0-3 letters) on every input up to %d bytes vs the first-terminator oracle" % N,
                    {"U_free_bytes": N})


def c20(tier, seed):
    import c20 as C20
    c = Check("C20", tier, seed)
    C20.run(c, tier)
    return c.finish("other", "finite: every entry of the five shipped tables (executed init) against well-formedness predicates (z3 over a symbolic entry index), the pinned baseline, and the real look-up code", {"entries": "all"})


SPECSQL = BASE + H("h_sqli.go", "h_spec_sqli.go", "h_xss_units.go") + S("strlit.go", "sqltok.go", "sqlfold.go")
URL = BASE + H("h_url.go") + S("entity.go", "strlit.go")


def c06(tier, seed):
    c = Check("C06", tier, seed)
    NU, NW = (5, 3) if tier == "quick" else (7, 4)
    jobs = []
    for f in range(5):
        jobs += wjobs("HSpecLex", NU, extra=[f], split_from=4, wbig=300)
    c.run_group("U-first-token", SPECSQL, jobs, expect_labels=["checked"])
    jobs = []
    for f in range(5):
        jobs += wjobs("HSpecStream", NW, extra=[f])
        jobs += wjobs("HSpecFold", NW, extra=[f])
    c.run_group("W-stream-fold", SPECSQL, jobs, expect_labels=["checked"])
    c.run_group("W-api", SPECSQL, wjobs("HSpecIsSQLi", NW), expect_labels=["checked"])
    c.assumptions.append("text that reaches a Unicode case-folding call is ASCII (other paths are closed as excluded and counted)")
    return c.finish("model_checking", "implementation vs independently written reference (spec/sqltok.go, spec/sqlfold.go) on the same symbolic input: first token in 5 modes for all inputs <= %d bytes; token stream, folded tokens, fingerprint, context verdict in 5 modes and IsSQLi for all inputs <= %d bytes" % (NU, NW),
                    {"U_free_bytes": NU, "W_free_bytes": NW, "modes": 5})


def c19(tier, seed):
    c = Check("C19", tier, seed)
    ND = 7 if tier == "quick" else 9
    c.run_group("U-decoder", URL, [job("HDecode", [n], witness_every=10) for n in range(0, ND + 1)], expect_labels=["checked"])
    jobs = []
    schemes = range(4)
    names = ["javascript:", "vbscript:", "data:", "view-source:"]
    hexl = "abcdefABCDEF0123456789"
    for sch in schemes:
        nm = names[sch]
        L = len(nm)
        for form in range(5):
            zs = (0,) if form == 0 else ((0, 2) if (tier != "quick" or sch == 0) else (0,))
            if tier != "quick" and form != 0:
                zs = (0, 1, 2, 4)
            for zeros in zs:
                jobs.append(job("HUrl", [sch, form, 0, 0, zeros, 1, -1, 1], witness_every=3))
        # exactly one character encoded, all positions, each encoded form; a reference without ';' must not be
        # followed by a literal digit of its base (then it would be a different reference)
        for pos in range(L):
            for f2 in ((1, 4) if tier == "quick" else (1, 2, 3, 4)):
                if f2 == 4 and pos + 1 < L and nm[pos + 1] in hexl:
                    continue
                jobs.append(job("HUrl", [sch, 0, f2, 1 << pos, 1, 0, -1, 1], witness_every=3))
        # NUL / LF inserted after each scheme character; leading junk of 2-3 bytes
        for pos in range(L - 1):
            jobs.append(job("HUrl", [sch, 0, 0, 0, 0, 0, pos, 0], witness_every=3))
            if tier != "quick":
                jobs.append(job("HUrl", [sch, 3, 0, 0, 0, 0, pos, 0], witness_every=3))
        for junk in (2, 3):
            jobs.append(job("HUrl", [sch, 0, 0, 0, 0, junk, -1, 2 if tier != "quick" else 1], witness_every=3))
    c.run_group("T-url", URL, jobs, expect_labels=["checked"])
    return c.finish("model_checking", "character-reference decoder vs reference decoder on every string <= %d bytes; scheme templates (4 schemes x encodings x leading zeros x leading junk x NUL/LF position, letter and hex-digit case symbolic, free tail)" % ND,
                    {"decoder_free_bytes": ND, "templates": len(jobs)})


PROPS = {"C06": c06, "C19": c19, "C20": c20, "C01": c01, "C02": c02, "C08": c08, "C12": c12, "C13": c13, "C15": c15, "C16": c16, "C17": c17, "C18": c18}



def replay_saved(path):
    rec = json.load(open(path))
    prop = rec.get("property", "?")
    overlays = BASE + [os.path.join(HARNESS_DIR, f) for f in sorted(os.listdir(HARNESS_DIR)) if f.startswith("h_") and f.endswith(".go")] + \
        [os.path.join(SPEC_DIR, f) for f in sorted(os.listdir(SPEC_DIR)) if f.endswith(".go")]
    nat = Native(overlays)
    try:
        out = nat.replay([{"id": "r", "entry": rec["entry"], "args": rec["args"], "vals": rec["vals"]}])
    finally:
        nat.close()
    r = out.get("r", {})
    print("replay %s: entry=%s args=%s input=%s -> native outcome=%s msg=%s site=%s" % (path, rec["entry"], rec["args"], rec.get("input"), r.get("outcome"), r.get("msg"), r.get("site")))
    if r.get("outcome") in ("panic", "crash", "assert", "timeout"):
        print("VIOLATION property=%s replay=%s" % (prop, path))
        return 1
    return 0
