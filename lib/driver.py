"""Driver for the symgo engine: worker pool, native replay, known findings, evidence.

The deciding step of every check is in the engine (SMT verdicts over path conditions built from the SSA of
/repo's current working tree). This module only schedules jobs, replays solver models against the natively
compiled package, and writes the evidence file.
"""
import atexit, json, os, re, subprocess, sys, tempfile, threading, time, shutil, hashlib, queue, glob

VERIF = os.path.dirname(os.path.dirname(os.path.abspath(__file__)))
REPO = os.environ.get("VERIF_REPO", "/repo")
BIN = os.path.join(VERIF, "bin", "symgo")
HARNESS_DIR = os.path.join(VERIF, "harness")
SPEC_DIR = os.path.join(VERIF, "spec")
ENV = dict(os.environ, GOFLAGS="-mod=mod", GOPROXY="off", GOSUMDB="off", GOTOOLCHAIN="local", GONOSUMDB="*", GONOSUMCHECK="1")
NWORKERS = int(os.environ.get("VERIF_WORKERS", "16"))


class Inconclusive(Exception):
    pass


def log(*a):
    print(*a, file=sys.stderr, flush=True)


def ensure_engine():
    src = glob.glob(os.path.join(VERIF, "engine", "*.go"))
    need = not os.path.exists(BIN) or any(os.path.getmtime(f) > os.path.getmtime(BIN) for f in src)
    if need:
        os.makedirs(os.path.dirname(BIN), exist_ok=True)
        r = subprocess.run(["go", "build", "-o", BIN, "."], cwd=os.path.join(VERIF, "engine"), env=ENV, capture_output=True, text=True)
        if r.returncode != 0:
            raise Inconclusive("engine build failed: " + r.stderr)


class Worker:
    def __init__(self, overlays, idx):
        self.p = subprocess.Popen([BIN, "worker", "-repo", REPO, "-overlay", ",".join(overlays)], stdin=subprocess.PIPE,
                                  stdout=subprocess.PIPE, stderr=subprocess.PIPE, text=True, env=ENV, bufsize=1)
        self.idx = idx
        self.ready = None

    def wait_ready(self):
        line = self.p.stdout.readline()
        if not line:
            err = self.p.stderr.read()
            raise Inconclusive("engine worker died at start-up: " + err[-2000:])
        m = json.loads(line)
        if "fatal" in m:
            raise Inconclusive("engine could not load the package with the harness overlay: " + m["fatal"])
        self.ready = m
        return m

    def run(self, job):
        self.p.stdin.write(json.dumps(job) + "\n")
        self.p.stdin.flush()
        line = self.p.stdout.readline()
        if not line:
            err = self.p.stderr.read()
            return {"id": job["id"], "entry": job["entry"], "args": job.get("args", []), "error": "worker died: " + err[-3000:], "paths": 0,
                    "ends": {}, "violations": [], "unsupported": {}, "excluded": {}, "witnesses": [], "labels": {}, "funcs": [], "dead": True}
        return json.loads(line)

    def close(self):
        try:
            self.p.stdin.close()
            self.p.wait(timeout=10)
        except Exception:
            self.p.kill()


def run_jobs(overlays, jobs, nworkers=None, deadline_s=None, progress=True):
    """Run engine jobs on a pool of worker processes; returns results in job order."""
    ensure_engine()
    if not jobs:
        return []
    n = min(nworkers or NWORKERS, len(jobs))
    t0 = time.time()
    workers = [Worker(overlays, i) for i in range(n)]
    for w in workers:
        w.wait_ready()
    q = queue.Queue()
    for i, j in enumerate(jobs):
        q.put((i, j))
    results = [None] * len(jobs)
    lock = threading.Lock()
    done = [0]

    def loop(w):
        while True:
            try:
                i, j = q.get_nowait()
            except queue.Empty:
                return
            if deadline_s and time.time() - t0 > deadline_s:
                results[i] = {"id": j["id"], "entry": j["entry"], "args": j.get("args", []), "error": "", "timeout": True, "skipped": True,
                              "paths": 0, "ends": {}, "violations": [], "unsupported": {}, "excluded": {}, "witnesses": [], "labels": {}, "funcs": []}
                continue
            r = w.run(j)
            results[i] = r
            if r.get("dead"):
                # replace the dead worker
                try:
                    nw = Worker(overlays, w.idx)
                    nw.wait_ready()
                    w.p = nw.p
                except Exception:
                    return
            with lock:
                done[0] += 1
                if progress and (done[0] % 50 == 0 or r.get("wall_s", 0) > 20):
                    log("  [%d/%d] %s %s paths=%s wall=%.1fs" % (done[0], len(jobs), r.get("entry"), r.get("args"), r.get("paths"), r.get("wall_s", 0)))

    ths = [threading.Thread(target=loop, args=(w,)) for w in workers]
    for t in ths:
        t.start()
    for t in ths:
        t.join()
    for w in workers:
        w.close()
    return results


# ---------------------------------------------------------------- native replay

def harness_entries(files):
    names = []
    for f in files:
        for m in re.finditer(r"^func (H[A-Za-z0-9_]+)\(", open(f).read(), re.M):
            names.append(m.group(1))
    return names


class Native:
    """Builds the package natively (go test -tags verif -overlay ...) with the same harness files and replays cases."""

    def __init__(self, overlays):
        self.overlays = overlays
        self.tmp = tempfile.mkdtemp(prefix="verif-replay-")
        atexit.register(self.close)
        reg = os.path.join(self.tmp, "registry_test.go")
        with open(reg, "w") as f:
            f.write("//go:build verif\n\npackage libinjection\n\nvar vRegistry = map[string]interface{}{\n")
            for n in harness_entries(overlays):
                f.write('\t"%s": %s,\n' % (n, n))
            f.write("}\n")
        rep = {}
        for o in overlays:
            rep[os.path.join(REPO, "zz_verif_" + os.path.basename(o))] = o
        rep[os.path.join(REPO, "zz_verif_replay_test.go")] = os.path.join(HARNESS_DIR, "replay_test.go.txt")
        rep[os.path.join(REPO, "zz_verif_registry_test.go")] = reg
        self.ov = os.path.join(self.tmp, "overlay.json")
        json.dump({"Replace": rep}, open(self.ov, "w"))
        self.bin = os.path.join(self.tmp, "replay.test")
        r = subprocess.run(["go", "test", "-tags", "verif", "-overlay", self.ov, "-vet=off", "-c", "-o", self.bin, "."], cwd=REPO, env=ENV,
                           capture_output=True, text=True)
        if r.returncode != 0:
            raise Inconclusive("native build of the harness failed: " + (r.stderr + r.stdout)[-3000:])

    def replay(self, cases, time_s=20):
        """cases: list of {id, entry, args, vals}; returns {id: result}."""
        out = {}
        pending = list(cases)
        while pending:
            inp = os.path.join(self.tmp, "in.json")
            outp = os.path.join(self.tmp, "out.json")
            if os.path.exists(outp):
                os.remove(outp)
            for c in pending:
                c.setdefault("time_s", time_s)
            json.dump(pending, open(inp, "w"))
            env = dict(ENV, VERIF_REPLAY=inp, VERIF_REPLAY_OUT=outp)
            try:
                r = subprocess.run([self.bin, "-test.run", "^TestVerifReplay$", "-test.count=1", "-test.timeout=0"], cwd=REPO, env=env,
                                   capture_output=True, text=True, timeout=min(len(pending) * time_s + 120, 7200))
                crashed = r.returncode != 0
                tail = (r.stdout + r.stderr)[-1500:]
            except subprocess.TimeoutExpired:
                crashed, tail = True, "native replay process timed out"
            res = []
            if os.path.exists(outp):
                try:
                    res = json.load(open(outp)) or []
                except Exception:
                    res = []
            for x in res:
                out[x["id"]] = x
            rest = [c for c in pending if c["id"] not in out]
            if rest and len(rest) == len(pending) or (rest and crashed):
                # results are flushed every 25 cases and on every non-"done" outcome; the process died (fatal error such
                # as a stack overflow) somewhere after the last flushed case: isolate by re-running the rest one by one
                if len(rest) == 1 or len(pending) == 1:
                    c = rest[0]
                    out[c["id"]] = {"id": c["id"], "outcome": "crash", "msg": tail, "site": "", "obs": []}
                    rest = rest[1:]
                else:
                    for c in rest:
                        out.update(self.replay([c], time_s))
                    rest = []
            pending = rest
        return out

    def race(self, hex_input, time_s=300):
        """C05: run the two API entry points on the input from 8 goroutines under the race detector."""
        env = dict(ENV, VERIF_RACE_INPUT=hex_input, CGO_ENABLED="1")
        try:
            r = subprocess.run(["go", "test", "-race", "-tags", "verif", "-overlay", self.ov, "-vet=off", "-count=1", "-run", "^TestVerifRace$", "."],
                               cwd=REPO, env=env, capture_output=True, text=True, timeout=time_s)
        except subprocess.TimeoutExpired:
            return False, "race run timed out"
        out = r.stdout + r.stderr
        return ("DATA RACE" in out), out[-1500:]

    def timing(self, pre_hex, unit_hex, api, post_hex="", time_s=600):
        """C09: native time ratio t(4N)/t(N) of the family pre + unit^N."""
        outp = os.path.join(self.tmp, "timing.json")
        if os.path.exists(outp):
            os.remove(outp)
        env = dict(ENV, VERIF_TIMING=json.dumps({"Pre": pre_hex, "Unit": unit_hex, "Post": post_hex, "API": api, "Out": outp}))
        try:
            subprocess.run([self.bin, "-test.run", "^TestVerifTiming$", "-test.count=1", "-test.timeout=0"], cwd=REPO, env=env, capture_output=True, text=True, timeout=time_s)
        except subprocess.TimeoutExpired:
            return {"ratio": 99.0, "note": "native run did not finish in %ds" % time_s}
        if not os.path.exists(outp):
            return {"ratio": 0.0, "note": "no timing result"}
        return json.load(open(outp))

    def pump(self, data, prefixes=(b"", b"<a ", b"<a b='", b"<", b"<a b=x "), reps=300000, lens=(1, 2, 3, 4)):
        """C02: does repeating some 1- to 4-byte slice of `data` make the natively compiled detector overflow its (capped) stack?"""
        tried = 0
        for l in lens:
            for i in range(0, len(data) - l + 1):
                for pre in prefixes:
                    spec = {"Prefix": pre.hex(), "Head": data[:i].hex(), "Unit": data[i:i + l].hex(), "Tail": data[i + l:].hex(), "Reps": reps}
                    env = dict(ENV, VERIF_PUMP=json.dumps(spec))
                    tried += 1
                    try:
                        r = subprocess.run([self.bin, "-test.run", "^TestVerifPump$", "-test.count=1", "-test.timeout=0"], cwd=REPO, env=env, capture_output=True, text=True, timeout=120)
                    except subprocess.TimeoutExpired:
                        continue
                    if "stack overflow" in (r.stdout + r.stderr) or "stack exceeds" in (r.stdout + r.stderr):
                        return True, {"pumped": (pre + data[:i]).decode("latin-1") + "(" + data[i:i + l].decode("latin-1") + ")^%d" % reps + data[i + l:].decode("latin-1"), "tried": tried}
        return False, {"tried": tried}

    def close(self):
        shutil.rmtree(self.tmp, ignore_errors=True)


def vals_of(inputs):
    return [iv["val"] for iv in inputs]


# ---------------------------------------------------------------- known findings

def load_known():
    p = os.path.join(VERIF, "known_findings.json")
    if not os.path.exists(p):
        return {"known": [], "fixed": []}
    return json.load(open(p))


def match_known(prop, viol, known):
    """A violation is a listed finding when property matches and every 'match' field is a substring of the violation's fields."""
    for k in known.get("known", []):
        if k["property"] != prop:
            continue
        ok = True
        for field, needle in k.get("match", {}).items():
            if needle not in str(viol.get(field, "")):
                ok = False
        if ok:
            return k
    return None


# ---------------------------------------------------------------- evidence

def write_evidence(prop, tier, seed, level, coverage, assumptions, wall, violations):
    evdir = os.environ.get("VERIF_EVIDENCE_DIR", os.path.join(VERIF, "evidence"))
    os.makedirs(evdir, exist_ok=True)
    ev = {"property_id": prop, "tier": tier, "seed": seed, "level": level, "coverage": coverage, "assumptions": assumptions,
          "wall_s": round(wall, 2), "violations": violations}
    with open(os.path.join(evdir, prop + ".json"), "w") as f:
        json.dump(ev, f, indent=1)
    return ev


def save_replay(prop, case, extra):
    d = os.path.join(os.environ.get("VERIF_REPLAY_DIR", os.path.join(VERIF, "replays")), prop)
    os.makedirs(d, exist_ok=True)
    body = dict(case)
    body.update(extra)
    h = hashlib.sha1(json.dumps(body, sort_keys=True).encode()).hexdigest()[:12]
    p = os.path.join(d, h + ".json")
    json.dump(body, open(p, "w"), indent=1)
    return p
