#!/usr/bin/python3
"""Regenerates /verif/MANIFEST.json from the claim table below (python3 lib/mkmanifest.py)."""
import json, os, sys
VERIF = os.path.dirname(os.path.dirname(os.path.abspath(__file__)))
sys.path.insert(0, os.path.join(VERIF, "lib"))
from claims import CLAIMS, NOT_APPLICABLE
import props
REGISTERED = set(props.PROPS)

props = [json.loads(l) for l in open(os.path.join(VERIF, "properties.jsonl"))]
ids = [p["id"] for p in props]
checks = []
for pid in ids:
    if pid not in CLAIMS or pid not in REGISTERED:
        continue
    c = CLAIMS[pid]
    checks.append({
        "property_id": pid,
        "quick_cmd": "./check %s quick" % pid,
        "thorough_cmd": "./check %s thorough" % pid,
        "evidence_file": "/verif/evidence/%s.json" % pid,
        "replay_cmd_template": "./check --replay {path}",
        "engine": "symgo",
        "level_claimed": {"category": c["category"], "text": c["text"], "design_ref": c.get("design_ref", "DESIGN.md section 7, " + pid)},
        "level_note": c["note"],
        "technique": c["technique"],
    })
na = [{"property_id": pid, "reason": NOT_APPLICABLE.get(pid, "check not built yet (work in progress); the design for it is in DESIGN.md section 7")} for pid in ids if pid not in CLAIMS or pid not in REGISTERED]
m = {
    "version": 1,
    "setup_cmd": "cd /verif/engine && GOFLAGS=-mod=mod GOPROXY=off GOSUMDB=off GOTOOLCHAIN=local go build -o /verif/bin/symgo .",
    "hooks": {
        "guard": "verif",
        "enable": "no source change in /repo: harness and spec files (//go:build verif) are injected by overlay (go/packages Overlay for the symbolic engine; go test -tags verif -overlay for native replay)",
        "baseline_off_cmd": "cd /repo && go test -vet=off -count=1 ./...",
        "source_commits": [],
        "add_only": True,
    },
    "engines": [{"name": "symgo", "path": "/verif/engine", "serves_properties": [c["property_id"] for c in checks],
                 "kind_free_text": "symbolic executor for Go SSA (golang.org/x/tools/go/ssa v0.29.0) of /repo's working tree; path conditions and assertions decided by z3 4.8.12 (one z3 -in per worker, push/pop); counterexamples replayed against the natively compiled package"}],
    "checks": checks,
    "notes": "Solver-based checking of the real code: every check symbolically executes the SSA of /repo's current source (regenerated per run) and lets z3 decide each path condition and assertion within stated bounds; see DESIGN.md.",
    "not_applicable": na,
}
json.dump(m, open(os.path.join(VERIF, "MANIFEST.json"), "w"), indent=1)
print("claimed:", [c["property_id"] for c in checks], "not_applicable:", [x["property_id"] for x in na])
