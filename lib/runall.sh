#!/bin/bash
# runs the quick (or $1) tier of every registered check sequentially; summary on stdout
cd /verif
tier=${1:-quick}
shift
ids=${@:-$(python3 -c "import sys; sys.path.insert(0,'lib'); import props; print(' '.join(sorted(props.PROPS)))")}
for p in $ids; do
  s=$(date +%s)
  ./check $p $tier > /tmp/runall_$p.out 2>&1
  rc=$?
  e=$(date +%s)
  echo "$p $tier exit=$rc wall=$((e-s))s $(grep -c '^VIOLATION' /tmp/runall_$p.out) violations; $(grep -m1 'INCONCLUSIVE' /tmp/runall_$p.out | cut -c1-200)"
done
