#!/usr/bin/python3
"""Seeded-change bookkeeping.
  seed.py add <name> <property> <patch.diff> <demo_test.go.txt> <meta.txt> [TestName]
       verifies in a scratch worktree of /repo HEAD (outside /repo and /verif; removed afterwards) that
       (1) demo passes on the clean tree, (2) the suite passes with the patch, (3) the demo fails with the patch;
       then stores /verif/seeded/<name>/{patch.diff,demo_test.go.txt,meta.json}
  seed.py run <name> <check-id>... [--tier quick]
       applies the patch to /repo, runs the checks, restores /repo, records the outcome in meta.json
  seed.py runall [--only-missing]
"""
import json, os, re, subprocess, sys, tempfile, shutil, time

VERIF = os.path.dirname(os.path.dirname(os.path.abspath(__file__)))
ENV = dict(os.environ, GOFLAGS="-mod=mod", GOPROXY="off", GOSUMDB="off", GOTOOLCHAIN="local")


def sh(cmd, cwd=None, timeout=900):
    r = subprocess.run(cmd, shell=True, cwd=cwd, env=ENV, capture_output=True, text=True, timeout=timeout)
    return r.returncode, (r.stdout + r.stderr)


def add(name, prop, patch, demo, meta_txt, test=None):
    wt = tempfile.mkdtemp(prefix="seedwt-")
    os.rmdir(wt)
    rc, out = sh("git -C /repo worktree add -q --detach %s HEAD" % wt)
    assert rc == 0, out
    try:
        demo_src = open(demo).read()
        if not test:
            test = re.search(r"func (Test\w+)\(", demo_src).group(1)
        shutil.copy(demo, os.path.join(wt, "zz_demo_test.go"))
        rc1, out1 = sh("go test -vet=off -count=1 -run '^%s$' ." % test, cwd=wt)
        os.remove(os.path.join(wt, "zz_demo_test.go"))
        rc, out = sh("git apply %s" % os.path.abspath(patch), cwd=wt)
        if rc != 0:
            rc, out = sh("git apply -3 %s" % os.path.abspath(patch), cwd=wt)
        if rc != 0:
            print("PATCH DOES NOT APPLY to /repo HEAD:", out)
            return 1
        rc2, out2 = sh("go build ./... && go test -vet=off -count=1 ./...", cwd=wt)
        shutil.copy(demo, os.path.join(wt, "zz_demo_test.go"))
        rc3, out3 = sh("go test -vet=off -count=1 -run '^%s$' ." % test, cwd=wt)
        os.remove(os.path.join(wt, "zz_demo_test.go"))
        rcd, diff = sh("git diff", cwd=wt)
        ok = rc1 == 0 and rc2 == 0 and rc3 != 0
        print("%s: demo on clean tree %s; suite with patch %s; demo with patch %s => %s" % (
            name, "passes" if rc1 == 0 else "FAILS", "passes" if rc2 == 0 else "FAILS", "fails" if rc3 != 0 else "PASSES", "KEEP" if ok else "REJECT"))
        if not ok:
            print(out1[-800:], out2[-800:], out3[-800:])
            return 1
        d = os.path.join(VERIF, "seeded", name)
        os.makedirs(d, exist_ok=True)
        open(os.path.join(d, "patch.diff"), "w").write(diff)
        shutil.copy(demo, os.path.join(d, "demo_test.go.txt"))
        head = sh("git -C /repo rev-parse --short HEAD")[1].strip()
        meta = {"name": name, "breaks_property": prop, "demo_test": test, "applies_to_repo_commit": head,
                "needs_to_manifest": open(meta_txt).read() if meta_txt and os.path.exists(meta_txt) else "",
                "confirmed": {"demo_passes_on_clean_tree": True, "suite_passes_with_patch": True, "demo_fails_with_patch": True,
                              "commands": ["go test -vet=off -count=1 -run '^%s$' . (clean tree, demo copied to zz_demo_test.go)" % test,
                                           "git apply patch.diff && go build ./... && go test -vet=off -count=1 ./...",
                                           "go test -vet=off -count=1 -run '^%s$' . (patched tree)" % test],
                              "demo_failure_excerpt": out3[-600:]},
                "checks_run": {}}
        json.dump(meta, open(os.path.join(d, "meta.json"), "w"), indent=1)
        return 0
    finally:
        sh("git -C /repo worktree remove --force %s" % wt)
        shutil.rmtree(wt, ignore_errors=True)


def run(name, checks, tier="quick", inplace=False):
    """inplace=True: the documented procedure (git -C /repo apply; run; git -C /repo checkout -- .).
    Default: the same patch applied to a scratch worktree of /repo HEAD that the checks are pointed at through the
    internal VERIF_REPO override, so that several seeded changes can be tried while /repo itself stays untouched."""
    d = os.path.join(VERIF, "seeded", name)
    meta = json.load(open(os.path.join(d, "meta.json")))
    env = dict(ENV)
    if inplace:
        rc, out = sh("git -C /repo status --porcelain")
        assert out.strip() == "", "/repo not clean: " + out
        rc, out = sh("git -C /repo apply %s" % os.path.join(d, "patch.diff"))
        assert rc == 0, out
        wt = None
    else:
        wt = tempfile.mkdtemp(prefix="seedrun-")
        os.rmdir(wt)
        rc, out = sh("git -C /repo worktree add -q --detach %s HEAD" % wt)
        assert rc == 0, out
        rc, out = sh("git apply %s" % os.path.join(d, "patch.diff"), cwd=wt)
        assert rc == 0, out
        env["VERIF_REPO"] = wt
        env["VERIF_EVIDENCE_DIR"] = os.path.join(wt, ".verif-evidence")
        env["VERIF_REPLAY_DIR"] = os.path.join(wt, ".verif-replays")
    try:
        for c in checks:
            t0 = time.time()
            r = subprocess.run("./check %s %s" % (c, tier), shell=True, cwd=VERIF, env=env, capture_output=True, text=True, timeout=14400)
            rc, out = r.returncode, r.stdout + r.stderr
            viol = [l for l in out.splitlines() if l.startswith("VIOLATION")]
            detail = [l.strip()[:300] for l in out.splitlines() if l.startswith("  H") or l.startswith("  C") or "INCONCLUSIVE" in l][:6]
            verdict = "DETECTED" if rc == 1 and viol else ("inconclusive" if rc == 2 else ("missed" if rc == 0 else "rc=%d" % rc))
            print("%-12s %s %s -> %s (%.0fs) %s" % (name, c, tier, verdict, time.time() - t0, detail[:1]), flush=True)
            meta["checks_run"]["%s %s" % (c, tier)] = {"verdict": verdict, "exit": rc, "detail": detail, "wall_s": round(time.time() - t0, 1),
                                                       "how": "git -C /repo apply; ./check; git -C /repo checkout -- ." if inplace else "patch applied to a scratch worktree of /repo HEAD, check pointed at it (VERIF_REPO)"}
    finally:
        if inplace:
            sh("git -C /repo checkout -- .")
        else:
            sh("git -C /repo worktree remove --force %s" % wt)
            shutil.rmtree(wt, ignore_errors=True)
    json.dump(meta, open(os.path.join(d, "meta.json"), "w"), indent=1)


if __name__ == "__main__":
    a = sys.argv[1:]
    if a[0] == "add":
        sys.exit(add(*a[1:]))
    elif a[0] == "run":
        tier = "quick"
        if "--tier" in a:
            i = a.index("--tier")
            tier = a[i + 1]
            del a[i:i + 2]
        inplace = "--inplace" in a
        if inplace:
            a.remove("--inplace")
        run(a[1], a[2:], tier, inplace)
    elif a[0] == "runall":
        for name in sorted(os.listdir(os.path.join(VERIF, "seeded"))):
            meta = json.load(open(os.path.join(VERIF, "seeded", name, "meta.json")))
            checks = a[1:] or [meta["breaks_property"]]
            run(name, checks)
