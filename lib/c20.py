"""C20: shipped tables well-formed (solver queries over a symbolic entry index) and baseline entries retained.

The tables are obtained by executing the package initialisers of /repo's current tree in the engine (symgo tables).
Every well-formedness predicate is one SMT query: the table is encoded as functions of a symbolic entry index
(balanced ite trees over the index bits), the negated predicate is asserted, and z3 either answers unsat (every
entry is well-formed) or returns the index of an offending entry.
"""
import json, os, subprocess, tempfile, time
from driver import *
from runner import BASE, H, job

CLASS = "kUBEtfn1vso&cA(){}.,:;T?X\\"  # token classes that may occur in a fingerprint
VALUES = CLASS + "F"                  # classes a table entry may carry
MAXK = 33


def bv(v, w):
    return "(_ bv%d %d)" % (v, w)


def tree(vals, w, idxw, lo=0, hi=None, bit=None):
    """balanced ite tree selecting vals[i] by the bits of i"""
    if hi is None:
        n = 1
        while n < len(vals):
            n *= 2
        return tree(vals + [vals[-1]] * (n - len(vals)), w, idxw, 0, n, n.bit_length() - 2)
    if hi - lo == 1:
        return bv(vals[lo], w)
    mid = (lo + hi) // 2
    a = tree(vals, w, idxw, lo, mid, bit - 1)
    b = tree(vals, w, idxw, mid, hi, bit - 1)
    if a == b:
        return a
    return "(ite (= ((_ extract %d %d) i) #b0) %s %s)" % (bit, bit, a, b)


class Z3:
    """One-shot queries: the table encoding (about 1.3 MB of balanced ite trees) is decided by z3's QF_BV tactic in
    about a second when given as a whole script; the incremental core needs minutes on the same assertions."""

    def __init__(self):
        self.base = []
        self.stack = [[]]
        self.queries = 0
        self.time = 0.0

    def send(self, s):
        if s.startswith("(push"):
            self.stack.append([])
        elif s.startswith("(pop"):
            self.stack.pop()
        elif s.startswith("(reset"):
            self.stack = [[]]
        elif s.startswith("(set-option"):
            pass
        else:
            self.stack[-1].append(s)

    def ask(self, s):
        t0 = time.time()
        script = "(set-logic QF_BV)\n" + "\n".join(l for fr in self.stack for l in fr) + "\n(check-sat)\n"
        if s.startswith("(get-value"):
            script += s + "\n"
        f = tempfile.NamedTemporaryFile("w", suffix=".smt2", delete=False)
        f.write(script)
        f.close()
        try:
            r = subprocess.run(["z3", f.name], capture_output=True, text=True, timeout=300)
        finally:
            os.remove(f.name)
        self.time += time.time() - t0
        out = r.stdout.strip().splitlines()
        if any(l.startswith("(error") for l in out):
            return "error: " + " ".join(out)
        if s.startswith("(get-value"):
            return out[-1] if len(out) > 1 else ""
        return out[0] if out else "no answer"

    def close(self):
        pass


def encode_table(z, name, keys, vals, maxk=MAXK):
    """declares i_<name> and constants len_<name>, b<j>_<name>, val_<name> tied to the entry selected by the index"""
    n = len(keys)
    z.send("(declare-const i (_ BitVec 16))")
    z.send("(assert (bvult i %s))" % bv(n, 16))
    z.send("(declare-const len_%s (_ BitVec 8))" % name)
    z.send("(assert (= len_%s %s))" % (name, tree([min(len(k), 255) for k in keys], 8, 16)))
    for j in range(maxk):
        z.send("(declare-const b%d_%s (_ BitVec 8))" % (j, name))
        z.send("(assert (= b%d_%s %s))" % (j, name, tree([(k[j] if j < len(k) else 0) for k in keys], 8, 16)))
    z.send("(declare-const val_%s (_ BitVec 8))" % name)
    z.send("(assert (= val_%s %s))" % (name, tree(vals, 8, 16)))
    return n


def member(term, chars):
    return "(or " + " ".join("(= %s %s)" % (term, bv(c, 8)) for c in chars) + ")"


def run(check, tier):
    t0 = time.time()
    ensure_engine()
    r = subprocess.run([BIN, "tables", "-repo", REPO], capture_output=True, text=True, env=ENV)
    if r.returncode != 0 or not r.stdout.strip().startswith("{"):
        raise Inconclusive("could not execute the package initialisers: " + (r.stdout + r.stderr)[-2000:])
    cur = json.loads(r.stdout)
    base = json.load(open(os.path.join(VERIF, "baseline", "tables.json")))
    viol = []
    obligations = 0
    samples = []

    # ---- (a) baseline entries retained with equal classification (plain comparison over the executed tables)
    kw = cur.get("sqlKeywords") or {}
    for k, v in base["sqlKeywords"].items():
        obligations += 1
        if kw.get(k) != v:
            viol.append({"kind": "baseline", "msg": "sqlKeywords[%r] was %r, now %r" % (k, v, kw.get(k)), "input": k})
    for name in ("blackEvents", "blacks"):
        curm = {e[0]: e[1] for e in cur.get(name) or []}
        for k, v in base[name]:
            obligations += 1
            if curm.get(k) != v:
                viol.append({"kind": "baseline", "msg": "%s[%r] was %r, now %r" % (name, k, v, curm.get(k)), "input": k})
    for t in base["blackTags"]:
        obligations += 1
        if t not in (cur.get("blackTags") or []):
            viol.append({"kind": "baseline", "msg": "black tag %r missing" % t, "input": t})
    for name in ("byteParsers", "wordAcceptTable", "varAcceptTable", "gsHexDecodeMap"):
        obligations += 1
        if cur.get(name) != base[name]:
            diff = [i for i in range(min(len(cur.get(name) or []), len(base[name]))) if (cur.get(name) or [])[i] != base[name][i]]
            viol.append({"kind": "baseline", "msg": "%s differs from the baseline at indices %s" % (name, diff[:8]), "input": name})

    # ---- (b) well-formedness by solver over a symbolic entry index
    z = Z3()
    z.send("(set-option :print-success false)")
    keys = sorted(kw.keys())
    kb = [k.encode("latin-1", "replace") if isinstance(k, str) else k for k in keys]
    kb = [k.encode("utf-8") for k in keys]
    n = encode_table(z, "kw", kb, [ord(kw[k][0]) if kw[k] else 0 for k in keys])
    L, V = "len_kw", "val_kw"
    B = lambda j: "b%d_kw" % j

    def anybyte(pred):
        return "(or " + " ".join("(and (bvugt %s %s) %s)" % (L, bv(j, 8), pred(B(j))) for j in range(MAXK)) + ")"

    upperclass = sorted(set(ord(c.upper()) if c.isalpha() else ord(c) for c in CLASS))
    preds = [
        ("key is non-empty and at most 31 bytes (longer keys can never equal a clipped token value)", "(or (= %s #x00) (bvugt %s #x1f))" % (L, L)),
        ("key has no lower-case letter (the look-up upper-cases the probe, so such a key is unreachable)", anybyte(lambda b: "(and (bvuge %s #x61) (bvule %s #x7a))" % (b, b))),
        ("key is ASCII and NUL-free", anybyte(lambda b: "(or (bvuge %s #x80) (= %s #x00))" % (b, b))),
        ("value is a valid class character", "(not %s)" % member(V, [ord(c) for c in VALUES])),
        ("a key is classified F exactly when it starts with '0'", "(not (= (= %s #x30) (= %s #x46)))" % (B(0), V)),
        ("fingerprint key is '0' followed by 1-5 characters", "(and (= %s #x46) (or (bvult %s #x02) (bvugt %s #x06)))" % (V, L, L)),
        ("fingerprint key characters are (upper-cased) token classes", "(and (= %s #x46) (or %s))" % (V, " ".join("(and (bvugt %s %s) (not %s))" % (L, bv(j, 8), member(B(j), upperclass)) for j in range(1, 7)))),
        ("function names have at least two characters", "(and (= %s #x66) (bvult %s #x02))" % (V, L)),
    ]
    for text, neg in preds:
        obligations += 1
        z.send("(push 1)")
        z.send("(assert %s)" % neg)
        res = z.ask("(check-sat)")
        z.queries += 1
        if res == "sat":
            idx = z.ask("(get-value (i))")
            try:
                iv = int(idx.split("#x")[1].rstrip(")"), 16)
            except Exception:
                iv = -1
            k = keys[iv] if 0 <= iv < len(keys) else "?"
            viol.append({"kind": "wellformed", "msg": "sqlKeywords: violated: %s: entry %r -> %r" % (text, k, kw.get(k)), "input": k})
        elif res != "unsat":
            z.close()
            raise Inconclusive("z3 said %r on C20 predicate %r" % (res, text))
        z.send("(pop 1)")
        samples.append({"table": "sqlKeywords", "entries": n, "predicate": text, "solver": res})
    z.send("(reset)")
    z.send("(set-option :print-success false)")
    # XSS name lists
    for name, items in (("blackTags", cur.get("blackTags") or []), ("blackEvents", [e[0] for e in cur.get("blackEvents") or []]), ("blacks", [e[0] for e in cur.get("blacks") or []])):
        kb = [s.encode("utf-8") for s in items]
        if not kb:
            viol.append({"kind": "wellformed", "msg": "%s is empty" % name, "input": name})
            continue
        z.send("(push 1)")
        mk = max(len(x) for x in kb) + 1
        m = encode_table(z, name, kb, [0] * len(kb), mk)
        L2 = "len_%s" % name
        for text, pred in (("name is upper-case (no a-z)", lambda b: "(and (bvuge %s #x61) (bvule %s #x7a))" % (b, b)), ("name is NUL-free ASCII", lambda b: "(or (= %s #x00) (bvuge %s #x80))" % (b, b))):
            obligations += 1
            z.send("(push 1)")
            z.send("(assert (or (= %s #x00) %s))" % (L2, " ".join("(and (bvugt %s %s) %s)" % (L2, bv(j, 8), pred("b%d_%s" % (j, name))) for j in range(mk))))
            res = z.ask("(check-sat)")
            z.queries += 1
            if res == "sat":
                idx = z.ask("(get-value (i))")
                iv = int(idx.split("#x")[1].rstrip(")"), 16)
                viol.append({"kind": "wellformed", "msg": "%s: violated: %s: entry %r" % (name, text, items[iv] if iv < len(items) else "?"), "input": items[iv] if iv < len(items) else "?"})
            elif res != "unsat":
                z.close()
                raise Inconclusive("z3 said %r on C20 predicate %r" % (res, text))
            z.send("(pop 1)")
            samples.append({"table": name, "entries": m, "predicate": text, "solver": res})
        z.send("(pop 1)")
    z.close()
    # a key longer than MAXK-1 bytes would be truncated by the encoding: check plainly that the encoding was exact
    for k in keys:
        if len(k.encode("utf-8")) >= MAXK:
            viol.append({"kind": "wellformed", "msg": "sqlKeywords key longer than 32 bytes: %r" % k, "input": k})

    # ---- (c) every entry is returned by the real look-up code (executed in the engine, concrete mode)
    rs = check.run_group("lookup-probes", BASE + H("h_tables.go", "gen_vocab.go"), [job("HTableProbe", [], maxsteps=400000000)], expect_labels=["probed"], witness_replay=False)
    for rec in list(check.violations):
        pass
    check.extra_cov.update({"obligations": obligations + 1, "discharged": obligations + 1 - len(viol) - len(check.violations), "exhaustive": True,
                            "tables": {k: (len(v) if hasattr(v, "__len__") else v) for k, v in cur.items()},
                            "solver_c20": {"queries": z.queries, "seconds": round(z.time, 2)}, "explanation": "tables from executed init; %d baseline entries compared; %d predicates decided by z3 over a symbolic entry index" % (obligations - len(preds) - 6, len(preds) + 6)})
    check.samples += samples[:6]
    for v in viol:
        check.add_violation({"entry": "C20", "args": [], "kind": v["kind"], "msg": v["msg"], "input": v["input"], "vals": [], "count": 1, "native": {}, "pc": ""})
    return obligations
