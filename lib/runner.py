"""Generic property runner: jobs -> engine -> native replay of counterexamples and witnesses -> evidence."""
import json, os, re, sys, time, random
from driver import *


def H(*names):
    return [os.path.join(HARNESS_DIR, n) for n in names]


def S(*names):
    return [os.path.join(SPEC_DIR, n) for n in names]


BASE = H("base.go")


JOB_TIMEOUT_S = float(os.environ.get("VERIF_JOB_TIMEOUT", "0") or 0)  # 0: per tier (quick 300 s, thorough 2400 s)
GROUP_DEADLINE_S = {"quick": 900.0, "thorough": 10800.0, "calibrate": 7200.0}


def job(entry, args=(), **kw):
    j = {"entry": entry, "args": list(args)}
    j.update(kw)
    return j


def engine_to_native_ok(v, nat):
    """Does the native outcome confirm the engine's counterexample?"""
    out = nat.get("outcome")
    if v["kind"] == "panic":
        return out in ("panic", "crash")
    msg = v["msg"]
    if msg.startswith("assert failed: "):
        return out == "assert" and nat.get("msg") == msg[len("assert failed: "):]
    if msg.startswith("step bound exceeded"):
        return out == "timeout"
    return False


class Check:
    def __init__(self, prop, tier, seed):
        self.prop, self.tier, self.seed = prop, tier, seed
        self.t0 = time.time()
        self.results = []
        self.groups = []  # (name, overlays, results)
        self.inconclusive = []
        self.violations = []  # confirmed, not known
        self.known_hits = []
        self.unconfirmed = []
        self.validated = 0
        self.validated_mismatch = []
        self.extra_cov = {}
        self.assumptions = []
        self.samples = []
        self.known = load_known()
        self.nat = None
        self._nats = {}
        self.unavailable = []
        self.skipped_confirmations = 0
        self.paranoid_checked = 0

    # -- running
    def run_group(self, name, overlays, jobs, expect_labels=(), witness_replay=True, confirm=None, deadline_s=None):
        for i, j in enumerate(jobs):
            j["id"] = "%s#%d" % (name, i)
            j.setdefault("timeout_s", JOB_TIMEOUT_S or (300.0 if self.tier == "quick" else 2400.0))
        if deadline_s is None:
            deadline_s = GROUP_DEADLINE_S.get(self.tier, 900.0)
        log("[%s %s] group %s: %d jobs" % (self.prop, self.tier, name, len(jobs)))
        try:
            rs = run_jobs(overlays, jobs, deadline_s=deadline_s)
        except Inconclusive as e:
            names = re.findall(r"undefined: ([A-Za-z_][A-Za-z0-9_.]*)", str(e))
            own = [n for n in names if re.match(r"^(v|spec|sh|H)[A-Z_0-9]", n)]
            if "could not load the package with the harness overlay" in str(e) and names and not own:
                # a unit-level harness refers to an internal identifier that no longer exists (refactoring): this layer
                # drops out; the remaining layers still decide the property (DESIGN.md 3.1)
                self.unavailable.append("%s: %s" % (name, str(e)[:600]))
                log("[%s %s] layer %s unavailable: %s" % (self.prop, self.tier, name, str(e)[:300]))
                return []
            raise
        self.groups.append((name, overlays, rs))
        labels = {}
        for r in rs:
            if r.get("error"):
                self.inconclusive.append("%s %s%s: %s" % (name, r.get("entry"), r.get("args"), r["error"][:1500]))
            if r.get("timeout") or r.get("truncated"):
                self.inconclusive.append("%s %s%s: exploration did not finish within its budget (paths so far %s)" % (name, r.get("entry"), r.get("args"), r.get("paths")))
            for k, n in (r.get("unsupported") or {}).items():
                self.inconclusive.append("%s %s%s: unsupported: %s (%d paths)" % (name, r.get("entry"), r.get("args"), k, n))
            if r.get("endcheck_unsat"):
                self.inconclusive.append("%s %s%s: %d completed paths failed the z3 end check (fast path / solver disagreement)" % (name, r.get("entry"), r.get("args"), r["endcheck_unsat"]))
            if r.get("paranoid_mismatch"):
                self.inconclusive.append("%s %s%s: %d byte-domain verdicts disagree with z3 (engine error)" % (name, r.get("entry"), r.get("args"), r["paranoid_mismatch"]))
            self.paranoid_checked += r.get("paranoid_checked", 0) or 0
            for k, n in (r.get("labels") or {}).items():
                labels[k] = labels.get(k, 0) + n
        for l in expect_labels:
            if not labels.get(l):
                self.inconclusive.append("%s: vacuity: no feasible path reached cover point %r" % (name, l))
        # native replay of counterexamples and witnesses
        cases, meta = [], {}
        for r in rs:
            for vi, v in enumerate(r.get("violations") or []):
                cid = "%s/v%d" % (r["id"], vi)
                cases.append({"id": cid, "entry": r["entry"], "args": r["args"], "vals": vals_of(v["inputs"])})
                meta[cid] = ("viol", r, v)
            if witness_replay and len(cases) < 6000:  # cap on natively replayed witnesses per group
                for wi, w in enumerate(r.get("witnesses") or []):
                    if w.get("approx"):
                        continue
                    cid = "%s/w%d" % (r["id"], wi)
                    cases.append({"id": cid, "entry": r["entry"], "args": r["args"], "vals": vals_of(w["inputs"])})
                    meta[cid] = ("wit", r, w)
        if cases:
            key = tuple(overlays)
            nat = self._nats.get(key)
            if nat is None:
                nat = self._nats[key] = Native(overlays)  # one native build per overlay set and check run
            self.nat = nat
            try:
                out = nat.replay(cases)
                self._confirm_all(meta, out, confirm)
            finally:
                self.nat = None
        return rs

    def _confirm_all(self, meta, out, confirm):
        if True:
            for cid, (kind, r, x) in meta.items():
                n = out.get(cid, {"outcome": "missing"})
                if kind == "wit":
                    if n.get("outcome") == "done" and [list(o) for o in (n.get("obs") or [])] == [list(o) for o in (x.get("obs") or [])]:
                        self.validated += 1
                    else:
                        self.validated_mismatch.append({"job": r["entry"], "args": r["args"], "input": x["text"], "engine_obs": x.get("obs"), "native": n})
                else:
                    ok = confirm(x, n, r) if confirm else engine_to_native_ok(x, n)
                    if ok is None:
                        self.skipped_confirmations += 1  # expensive native confirmation capped; a confirmed one of the same kind is reported
                        continue
                    rec = {"entry": r["entry"], "args": r["args"], "kind": x["kind"], "msg": x["msg"], "input": x["text"], "vals": vals_of(x["inputs"]),
                           "count": x["count"], "native": {k: n.get(k) for k in ("outcome", "msg", "site")}, "pc": x.get("pc", "")}
                    if ok:
                        k = match_known(self.prop, rec, self.known)
                        if k:
                            self.known_hits.append((k, rec))
                        else:
                            self.violations.append(rec)
                    else:
                        self.unconfirmed.append(rec)

    def add_violation(self, rec):
        k = match_known(self.prop, rec, self.known)
        if k:
            self.known_hits.append((k, rec))
        else:
            self.violations.append(rec)

    # -- finishing
    def totals(self):
        t = {"paths": 0, "forks": 0, "queries": 0, "sat": 0, "unsat": 0, "solver_s": 0.0, "fast": 0, "implied": 0, "excluded": 0, "jobs": 0, "engine_s": 0.0}
        funcs, ends, excl = set(), {}, {}
        for _, _, rs in self.groups:
            for r in rs:
                t["jobs"] += 1
                t["paths"] += r.get("paths", 0)
                t["forks"] += r.get("forks", 0)
                t["queries"] += r.get("queries", 0)
                t["sat"] += r.get("sat", 0)
                t["unsat"] += r.get("unsat", 0)
                t["solver_s"] += r.get("solver_s", 0)
                t["fast"] += r.get("fast", 0)
                t["implied"] += r.get("implied", 0)
                t["engine_s"] += r.get("wall_s", 0)
                for f in r.get("funcs") or []:
                    funcs.add(f)
                for k, n in (r.get("ends") or {}).items():
                    ends[k] = ends.get(k, 0) + n
                for k, n in (r.get("excluded") or {}).items():
                    excl[k] = excl.get(k, 0) + n
                    t["excluded"] += n
        t["solver_s"] = round(t["solver_s"], 2)
        t["engine_s"] = round(t["engine_s"], 2)
        return t, sorted(funcs), ends, excl

    def finish(self, level, text_rule, bounds, trusted=()):
        for nat in self._nats.values():
            nat.close()
        self._nats = {}
        t, funcs, ends, excl = self.totals()
        samples = list(self.samples)
        rnd = random.Random(self.seed)
        allw = []
        for name, _, rs in self.groups:
            for r in rs:
                for w in r.get("witnesses") or []:
                    allw.append({"harness": r["entry"], "args": r["args"], "path_condition": w.get("pc", ""), "witness": w["text"], "observed": w.get("obs")})
        rnd.shuffle(allw)
        samples += allw[:8]
        if not samples:
            for name, _, rs in self.groups[:3]:
                for r in rs[:3]:
                    samples.append({"harness": r["entry"], "args": r["args"], "paths": r.get("paths"), "ends": r.get("ends")})
        feasible = sum(n for k, n in ends.items() if k not in ("infeasible",))
        obligations = feasible + sum(1 for _ in self.violations)
        cov = {
            "states": max(1, feasible), "transitions": max(1, t["forks"]), "traces_validated_against_impl": self.validated,
            "samples": samples, "obligations": feasible, "discharged": feasible - len(self.violations) - len(self.known_hits) - len(self.unconfirmed),
            "evaluations": max(1, feasible), "distinct_nontrivial": max(0, feasible),
            "rule": text_rule, "explanation": text_rule,
            "bounds": bounds, "functions_encoded": funcs, "path_ends": ends, "excluded_paths": excl,
            "solver": {"binary": "z3 -in (QF_BV)", "queries": t["queries"], "sat": t["sat"], "unsat": t["unsat"], "seconds": t["solver_s"],
                       "fast_path_decisions": t["fast"], "implied_branches": t["implied"]},
            "engine_jobs": t["jobs"], "engine_cpu_s": t["engine_s"], "exhaustive": False,
            "known_findings_hit": [k["id"] for k, _ in self.known_hits],
            "witness_mismatches": self.validated_mismatch[:5], "unconfirmed_counterexamples": self.unconfirmed[:5],
            "trusted_base": list(trusted) or ["golang.org/x/tools/go/ssa v0.29.0 as the semantics of the source", "z3 4.8.12", "the engine's models of strings.* (DESIGN.md 3.5)"],
            "checker_cmd": "./check %s %s" % (self.prop, self.tier),
        }
        cov["unavailable_layers"] = self.unavailable
        cov["byte_domain_verdicts_rechecked_by_z3"] = self.paranoid_checked
        cov["counterexamples_not_replayed_because_capped"] = self.skipped_confirmations
        cov.update(self.extra_cov)
        if self.unavailable and not self.groups:
            self.inconclusive.append("no harness layer could be loaded: " + "; ".join(self.unavailable)[:800])
        wall = time.time() - self.t0
        viol_n = len(self.violations)
        write_evidence(self.prop, self.tier, self.seed, level, cov, self.assumptions, wall, viol_n)
        for k, rec in self.known_hits:
            pass
        seen = set()
        for k, rec in self.known_hits:
            if k["id"] in seen:
                continue
            seen.add(k["id"])
            print("KNOWN-FINDING: property=%s %s (e.g. %s)" % (self.prop, k["what"], rec["input"]))
        code = 0
        for rec in self.violations:
            p = save_replay(self.prop, {"entry": rec["entry"], "args": rec["args"], "vals": rec["vals"]}, {"property": self.prop, "kind": rec["kind"], "msg": rec["msg"], "input": rec["input"], "native": rec["native"]})
            print("VIOLATION property=%s replay=%s" % (self.prop, p))
            log("  %s %s: %s: %s input %s native=%s" % (rec["entry"], rec["args"], rec["kind"], rec["msg"], rec["input"], rec["native"]))
            code = 1
        if code == 0 and (self.inconclusive or self.unconfirmed or self.validated_mismatch):
            for m in self.inconclusive[:20]:
                log("INCONCLUSIVE: " + m)
            for u in self.unconfirmed[:10]:
                log("INCONCLUSIVE: counterexample did not reproduce natively (engine/model error, not a finding): %s" % json.dumps(u)[:800])
            for u in self.validated_mismatch[:10]:
                log("INCONCLUSIVE: witness observation mismatch engine vs native: %s" % json.dumps(u)[:800])
            code = 2
        log("[%s %s] paths=%d feasible=%d queries=%d solver=%.1fs validated=%d wall=%.1fs exit=%d" % (self.prop, self.tier, t["paths"], feasible, t["queries"], t["solver_s"], self.validated, wall, code))
        return code
