//go:build verif

package libinjection

import "sort"

// vTableKeys returns the keys of the keyword table in sorted order (engine: built from the executed init).
func vTableKeys() []string {
	out := make([]string, 0, len(sqlKeywords))
	for k := range sqlKeywords {
		out = append(out, k)
	}
	sort.Strings(out)
	return out
}

// HTableProbe (C20): every entry of the shipped tables is returned, with its own classification, by the real
// look-up code applied to the entry's own spelling (executed in the engine on the tables built by the executed init).
func HTableProbe() {
	// the tables must still be intact after the detectors have run (lazy initialisation that rewrites a table shows here)
	IsXSS("<set attributeName=fill to=red>")
	IsXSS("<a href=javascript:alert(1) style=x onclick=y>")
	IsXSS("x' onerror=alert(1) xmlns=a")
	IsSQLi("1 union select 1,2 -- ")
	IsSQLi("x' or 'a' like 'a'/*")
	for i := 0; i < len(vBaseBlacks); i++ {
		vAssert(isBlackAttr(vBaseBlacks[i].name) == vBaseBlacks[i].typ, "baseline black attribute still classified as in the baseline after the detectors ran")
	}
	for i := 0; i < len(vBaseTags); i++ {
		vAssert(isBlackTag(vBaseTags[i]+"x"[:0]), "baseline black tag still recognised after the detectors ran")
	}
	for i := 0; i < len(vBaseEvents); i++ {
		vAssert(isBlackAttr("on"+vBaseEvents[i]) == attributeTypeBlack, "baseline event handler still recognised after the detectors ran")
	}
	keys := vTableKeys()
	for i := 0; i < len(keys); i++ {
		k := keys[i]
		vAssert(searchKeyword(k, sqlKeywords) == sqlKeywords[k], "keyword entry is returned by the real look-up")
		vAssert(searchKeyword(vLowerASCII(k), sqlKeywords) == sqlKeywords[k], "keyword entry is found case-insensitively")
	}
	for i := 0; i < len(blackTags); i++ {
		vAssert(isBlackTag(blackTags[i]), "black tag is recognised by the real classifier")
		vAssert(isBlackTag(vLowerASCII(blackTags[i])), "black tag is recognised case-insensitively")
	}
	for i := 0; i < len(blackEvents); i++ {
		vAssert(isBlackAttr("ON"+blackEvents[i].name) == blackEvents[i].attributeType, "event handler is classified by the real classifier")
		vAssert(isBlackAttr("on"+vLowerASCII(blackEvents[i].name)) == blackEvents[i].attributeType, "event handler is classified case-insensitively")
	}
	for i := 0; i < len(blacks); i++ {
		vAssert(isBlackAttr(blacks[i].name) == blacks[i].attributeType, "black attribute is classified by the real classifier")
	}
	vObserveInt("keys", len(keys))
	vCover("probed")
}
