//go:build verif

package libinjection

// C01 / C02: totality. The assertions are the engine's implicit ones (index/slice bounds, nil, division,
// explicit panic, step budget, call depth); the harness only drives the API.

func HSqliTotal(n int) {
	s := vNondetString(n)
	ok, fp := IsSQLi(s)
	vObserveBool("verdict", ok)
	vObserveStr("fp", fp)
}

func HXssTotal(n int) {
	s := vNondetString(n)
	ok := IsXSS(s)
	vObserveBool("verdict", ok)
}

func HXssCtxTotal(n int, ctx int) {
	s := vNondetString(n)
	ok := isXSS(s, ctx)
	vObserveBool("verdict", ok)
}
