//go:build verif

package libinjection

// C02: totality per injection context (internal entry point isXSS).

func HXssCtxTotal(n int, ctx int) {
	s := vNondetString(n)
	ok := isXSS(s, ctx)
	vObserveBool("verdict", ok)
}

