//go:build verif

package libinjection

// Harness vocabulary. The symbolic engine (/verif/engine) intercepts every function below whose name it
// knows (vNondet*, vByteIn, vIntIn, vAssume, vAssert, vCover, vCost, vDepth, vObserve*, vUpperASCII, ...);
// the bodies here are the *native* meaning, used when a solver model is replayed against the compiled
// package (go test -tags verif -overlay ...): nondeterministic values are read from the replay vector.

import "strings"

type vReplayState struct {
	vals   []uint64
	pos    int
	obs    [][2]string
	covers []string
}

type vAssumeFailed struct{}
type vAssertFailed struct{ msg string }
type vReplayExhausted struct{}

var vR *vReplayState

func vNext() uint64 {
	if vR == nil || vR.pos >= len(vR.vals) {
		panic(vReplayExhausted{})
	}
	v := vR.vals[vR.pos]
	vR.pos++
	return v
}

func vNondetString(n int) string {
	b := make([]byte, n)
	for i := range b {
		b[i] = byte(vNext())
	}
	return string(b)
}
func vNondetByte() byte { return byte(vNext()) }
func vNondetInt() int   { return int(int64(vNext())) }
func vNondetBool() bool { return vNext() != 0 }
func vByteIn(set string) byte {
	b := byte(vNext())
	if strings.IndexByte(set, b) == -1 {
		panic(vAssumeFailed{})
	}
	return b
}
func vIntIn(lo, hi int) int {
	v := int(int64(vNext()))
	if v < lo || v > hi {
		panic(vAssumeFailed{})
	}
	return v
}
func vAssume(b bool) {
	if !b {
		panic(vAssumeFailed{})
	}
}
func vAssert(b bool, msg string) {
	if !b {
		panic(vAssertFailed{msg})
	}
}
func vCover(msg string) {
	if vR != nil {
		vR.covers = append(vR.covers, msg)
	}
}
func vCost() int   { return 0 }
func vDepth() int  { return 0 }
func vResetDepth() {}

func vObserveInt(label string, x int) {
	if vR != nil {
		vR.obs = append(vR.obs, [2]string{label, vItoa(x)})
	}
}
func vObserveBool(label string, x bool) {
	if vR != nil {
		if x {
			vR.obs = append(vR.obs, [2]string{label, "true"})
		} else {
			vR.obs = append(vR.obs, [2]string{label, "false"})
		}
	}
}
func vObserveByte(label string, x byte) { vObserveInt(label, int(x)) }
func vObserveStr(label string, s string) {
	if vR != nil {
		const hexd = "0123456789abcdef"
		b := make([]byte, 0, 2*len(s))
		for i := 0; i < len(s); i++ {
			b = append(b, hexd[s[i]>>4], hexd[s[i]&15])
		}
		vR.obs = append(vR.obs, [2]string{label, string(b)})
	}
}

func vItoa(x int) string {
	if x == 0 {
		return "0"
	}
	neg := x < 0
	u := uint64(x)
	if neg {
		u = uint64(-x)
	}
	var b [24]byte
	i := len(b)
	for u > 0 {
		i--
		b[i] = byte('0' + u%10)
		u /= 10
	}
	if neg {
		i--
		b[i] = '-'
	}
	return string(b[i:])
}

// ASCII-only case folding as single terms (the engine builds one ite per byte; no forking).
func vUpperASCII(s string) string {
	b := []byte(s)
	for i, c := range b {
		if c >= 'a' && c <= 'z' {
			b[i] = c - 0x20
		}
	}
	return string(b)
}
func vLowerASCII(s string) string {
	b := []byte(s)
	for i, c := range b {
		if c >= 'A' && c <= 'Z' {
			b[i] = c + 0x20
		}
	}
	return string(b)
}

var vComponents map[string]bool

// vNotKeyComponent: ASCII-upper(w) is not a space-delimited component of any key of the keyword table.
func vNotKeyComponent(w string) bool {
	if vComponents == nil {
		vComponents = map[string]bool{}
		for k := range sqlKeywords {
			for _, p := range strings.Split(k, " ") {
				vComponents[p] = true
			}
		}
	}
	return !vComponents[vUpperASCII(w)]
}

// vIsKeyword: ASCII-upper(w) is a key of the keyword table.
func vIsKeyword(w string) bool {
	_, ok := sqlKeywords[vUpperASCII(w)]
	return ok
}

func vIndexByte(s string, c byte) int { return strings.IndexByte(s, c) }

// composed helpers (ordinary Go, executed by the engine as written)

func vLetter(c byte) byte { return vByteIn(string([]byte{c, c ^ 0x20})) }
func vSQLWS() byte        { return vByteIn(" \t\n\v\f\r\xa0\x00") }
func vH5WS() byte         { return vByteIn(" \t\n\v\f\r") }
func vDigit() byte        { return vByteIn("0123456789") }

// vWord: the word w with the case of every letter free.
func vWord(w string) string {
	out := make([]byte, 0, len(w))
	for i := 0; i < len(w); i++ {
		c := w[i]
		if (c >= 'a' && c <= 'z') || (c >= 'A' && c <= 'Z') {
			out = append(out, vLetter(c))
		} else {
			out = append(out, c)
		}
	}
	return string(out)
}

func vB(b byte) string { return string([]byte{b}) }
