//go:build verif

package libinjection

// C01 / C02: totality, public API only (IsSQLi, IsXSS): these harnesses survive any internal refactoring.
// C01 / C02: totality. The assertions are the engine's implicit ones (index/slice bounds, nil, division,
// explicit panic, step budget, call depth); the harness only drives the API.

func HSqliTotal(n int) {
	s := vNondetString(n)
	ok, fp := IsSQLi(s)
	vObserveBool("verdict", ok)
	vObserveStr("fp", fp)
}

func HXssTotal(n int) {
	s := vNondetString(n)
	ok := IsXSS(s)
	vObserveBool("verdict", ok)
}

// HSqlOpener (C01, T layer): a fixed opener followed by n free bytes, so that free bytes land behind every
// multi-byte construct opener; context prefixes put the opener after a quote break-out.
func HSqlOpener(which int, n int, pre int) {
	op := [...]string{"q'(", "nq'[", "$ab$", "$$", "0x", "0b", "1e+", "1.", "/*", "/*!", "@@", "@`", "x'", "b'", "u&'", "n'", "e'", "--", "#", "[", "\\",
		"1 union select ", "1' or '", "1;", "{", "`", "1 -- ", "1/*", "a.", "@a:=", "1 like (", "1 in (", "a(", "1,-", "select .", "::", "<=>", "&&", "1f", "$1,", "$."}[which]
	p := [...]string{"", "1'", "1\"", "1 "}[pre]
	s := p + op + vNondetString(n)
	ok, fp := IsSQLi(s)
	vObserveBool("verdict", ok)
	vObserveStr("fp", fp)
	vCover("done")
}

const vNumSqlOpeners = 41
