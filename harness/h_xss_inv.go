//go:build verif

package libinjection

// C11 templates: every baseline name is classified the same under two independent case assignments and with a NUL
// inserted at any interior position; and the vector built from it gets the same verdict.
func HNameInvT(kind int, idx int) {
	var name string
	switch kind {
	case 0:
		name = "on" + vBaseEvents[idx]
	case 1:
		name = vBaseBlacks[idx].name
	case 2:
		name = vBaseTags[idx]
	}
	a := vName(name, 0)
	b := vName(name, 0)
	k := vIntIn(1, len(name)-1)
	c := a[:k] + "\x00" + a[k:]
	if kind == 2 {
		vAssert(isBlackTag(a) == isBlackTag(b), "tag classification is case-insensitive")
		vAssert(isBlackTag(a) == isBlackTag(c), "NUL inside a tag name does not change its classification")
		vAssert(IsXSS("<"+a+">") == IsXSS("<"+c+">"), "NUL inside the element name does not change the verdict")
		vAssert(IsXSS("<"+a+">") == IsXSS("<"+b+">"), "case of the element name does not change the verdict")
	} else {
		vAssert(isBlackAttr(a) == isBlackAttr(b), "attribute classification is case-insensitive")
		vAssert(isBlackAttr(a) == isBlackAttr(c), "NUL inside an attribute name does not change its classification")
		vAssert(IsXSS("<a "+a+"=x>") == IsXSS("<a "+c+"=x>"), "NUL inside the attribute name does not change the verdict")
		vAssert(IsXSS("<a "+a+"=x>") == IsXSS("<a "+b+"=x>"), "case of the attribute name does not change the verdict")
	}
	vCover("checked")
}

// HUrlCaseT (C11): a URL attribute whose scheme is written with character references; two independent case
// assignments (scheme letters, hex digits, the x of &#x) must get the same verdict.
func HUrlCaseT(sch int, form int, mixMask int) {
	scheme := vSchemes[sch]
	v1, v2 := "", ""
	for i := 0; i < len(scheme); i++ {
		f := 0
		if mixMask&(1<<uint(i)) != 0 {
			f = form
		}
		c := scheme[i]
		if f == 0 {
			v1 += vWord(scheme[i : i+1])
			v2 += vWord(scheme[i : i+1])
			continue
		}
		// encode the lower-case and the upper-case letter code; hex digit case free and independent on both sides
		v1 += vEncFixed(c, f)
		v2 += vEncFixed(c, f)
	}
	a := IsXSS("<a href=\"" + v1 + "x\">")
	b := IsXSS("<a href=\"" + v2 + "x\">")
	vAssert(a == b, "case of letters and hex digits in an encoded URL scheme does not change the verdict")
	vCover("checked")
}

// vEncFixed: c as &#xHH; (form 3) or &#xHH (form 4) with free case of the hex letters and of the x; the encoded
// code point is that of c in a free letter case.
func vEncFixed(c byte, form int) string {
	b := c
	if (c >= 'a' && c <= 'z') || (c >= 'A' && c <= 'Z') {
		b = vLetter(c)
	}
	s := "&#" + vB(vByteIn("xX")) + vB(vHexDigit(b>>4)) + vB(vHexDigit(b&15))
	if form == 3 {
		s += ";"
	}
	return s
}

// HNameNulRunT (C11): a run of `run` NUL bytes inserted at any interior position of a baseline name changes neither the
// classifier's answer nor the verdict of the vector built from it (length cut-offs applied before NUL removal).
func HNameNulRunT(kind int, idx int, run int) {
	var name string
	switch kind {
	case 0:
		name = "on" + vBaseEvents[idx]
	case 1:
		name = vBaseBlacks[idx].name
	case 2:
		name = vBaseTags[idx]
	}
	a := vName(name, 0)
	k := vIntIn(1, len(name)-1)
	nuls := ""
	for i := 0; i < run; i++ {
		nuls += "\x00"
	}
	c := a[:k] + nuls + a[k:]
	if kind == 2 {
		vAssert(isBlackTag(a) == isBlackTag(c), "NULs inside a tag name do not change its classification")
		vAssert(IsXSS("<"+a+">") == IsXSS("<"+c+">"), "NULs inside the element name do not change the verdict")
	} else {
		vAssert(isBlackAttr(a) == isBlackAttr(c), "NULs inside an attribute name do not change its classification")
		vAssert(IsXSS("<a "+a+"=x>") == IsXSS("<a "+c+"=x>"), "NULs inside the attribute name do not change the verdict")
	}
	vCover("checked")
}
