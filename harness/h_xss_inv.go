//go:build verif

package libinjection

// C11 templates: every baseline name is classified the same under two independent case assignments and with a NUL
// inserted at any interior position; and the vector built from it gets the same verdict.
func HNameInvT(kind int, idx int) {
	var name string
	switch kind {
	case 0:
		name = "on" + vBaseEvents[idx]
	case 1:
		name = vBaseBlacks[idx].name
	case 2:
		name = vBaseTags[idx]
	}
	a := vName(name, 0)
	b := vName(name, 0)
	k := vIntIn(1, len(name)-1)
	c := a[:k] + "\x00" + a[k:]
	if kind == 2 {
		vAssert(isBlackTag(a) == isBlackTag(b), "tag classification is case-insensitive")
		vAssert(isBlackTag(a) == isBlackTag(c), "NUL inside a tag name does not change its classification")
		vAssert(IsXSS("<"+a+">") == IsXSS("<"+c+">"), "NUL inside the element name does not change the verdict")
		vAssert(IsXSS("<"+a+">") == IsXSS("<"+b+">"), "case of the element name does not change the verdict")
	} else {
		vAssert(isBlackAttr(a) == isBlackAttr(b), "attribute classification is case-insensitive")
		vAssert(isBlackAttr(a) == isBlackAttr(c), "NUL inside an attribute name does not change its classification")
		vAssert(IsXSS("<a "+a+"=x>") == IsXSS("<a "+c+"=x>"), "NUL inside the attribute name does not change the verdict")
		vAssert(IsXSS("<a "+a+"=x>") == IsXSS("<a "+b+"=x>"), "case of the attribute name does not change the verdict")
	}
	vCover("checked")
}
