//go:build verif

package libinjection

// U-layer harnesses for the HTML5 tokenizer (C02, C17): every state function entered at an arbitrary offset that
// satisfies its entry invariant (DESIGN.md section 4), on a free suffix, run until the tokenizer stops.

func vSetState(h *h5State, which int) {
	switch which {
	case 0:
		h.state = h.stateData
	case 1:
		h.state = h.stateTagOpen
	case 2:
		h.state = h.stateEndTagOpen
	case 3:
		h.state = h.stateTagName
	case 4:
		h.state = h.stateTagNameClose
	case 5:
		h.state = h.stateSelfClosingStartTag
	case 6:
		h.state = h.stateBeforeAttributeName
	case 7:
		h.state = h.stateAttributeName
	case 8:
		h.state = h.stateAfterAttributeName
	case 9:
		h.state = h.stateBeforeAttributeValue
	case 10:
		h.state = h.stateAttributeValueNoQuote
	case 11:
		h.state = h.stateAttributeValueDoubleQuote
	case 12:
		h.state = h.stateAttributeValueSingleQuote
	case 13:
		h.state = h.stateAttributeValueBackQuote
	case 14:
		h.state = h.stateAfterAttributeValueQuotedState
	case 15:
		h.state = h.stateMarkupDeclarationOpen
	case 16:
		h.state = h.stateBogusComment
	case 17:
		h.state = h.stateBogusComment2
	case 18:
		h.state = h.stateComment
	case 19:
		h.state = h.stateCData
	case 20:
		h.state = h.stateDoctype
	case 21:
		h.state = h.stateEOF
	}
}

const vNumH5States = 22

// vEntryInvariant assumes the entry invariant of state `which` at offset p of s (len n).
func vEntryInvariant(which int, s string, n, p int) {
	switch which {
	case 1, 2, 5, 15, 16, 17, 18, 19, 20:
		vAssume(p >= 1) // entered after '<' (or '/')
	case 3:
		vAssume(p < n)
	case 4:
		vAssume(p < n)
		vAssume(s[p] == '>')
	case 7:
		vAssume(p < n)
	case 11:
		if p > 0 {
			vAssume(p < n)
			vAssume(s[p] == '"')
		}
	case 12:
		if p > 0 {
			vAssume(p < n)
			vAssume(s[p] == '\'')
		}
	case 13:
		if p > 0 {
			vAssume(p < n)
			vAssume(s[p] == '`')
		}
	}
}

// HStateRun: C02 + C17 range/order/count from an arbitrary state. n = input length, which = state, p = entry offset.
func HStateRun(n int, which int, p int) {
	s := vNondetString(n)
	h := &h5State{s: s, len: n, pos: p, isClose: vNondetBool()}
	vSetState(h, which)
	vEntryInvariant(which, s, n, p)
	count := 0
	prevEnd := 0
	first := true
	for h.next() {
		count++
		off := n - len(h.tokenStart)
		vAssert(off >= 0, "token offset non-negative")
		vAssert(h.tokenLen >= 0, "token length non-negative")
		vAssert(off+h.tokenLen <= n, "token inside input")
		if !first {
			vAssert(off >= prevEnd, "tokens ordered, non-overlapping")
		}
		vAssert(h.pos >= p && h.pos <= n, "position monotone and in range")
		vAssert(h.tokenType >= html5TypeDataText && h.tokenType <= html5TypeDocType, "token type is one of the ten")
		first = false
		prevEnd = off + h.tokenLen
		vAssert(count <= n+1, "at most |s|+1 tokens")
	}
	vObserveInt("count", count)
	vObserveInt("pos", h.pos)
	vCover("stopped")
}

// HStateDepth: the maximum call depth of one tokenizer run must not grow with the input length
// (bounded form of "no state-to-state recursion proportional to the input").
func HStateDepth(n int, which int, p int, maxDepth int) {
	s := vNondetString(n)
	h := &h5State{s: s, len: n, pos: p, isClose: vNondetBool()}
	vSetState(h, which)
	vEntryInvariant(which, s, n, p)
	vResetDepth()
	for h.next() {
	}
	vAssert(vDepth() <= maxDepth, "call depth bounded independently of input length")
	vCover("stopped")
}

// ---- C17: every delimited construct ends at the first occurrence of its terminator.

// specFirst returns the index of the first occurrence of term in b, or -1.
func specFirst(b string, term string) int {
	for i := 0; i+len(term) <= len(b); i++ {
		j := 0
		for j < len(term) && b[i+j] == term[j] {
			j++
		}
		if j == len(term) {
			return i
		}
	}
	return -1
}

// specCommentEnd: first i such that b[i] == '-', then NUL*, then '-' or '!', then '>'. Returns (i, resume) or (-1,-1).
func specCommentEnd(b string) (int, int) {
	for i := 0; i < len(b); i++ {
		if b[i] != '-' {
			continue
		}
		j := i + 1
		for j < len(b) && b[j] == 0 {
			j++
		}
		if j < len(b) && (b[j] == '-' || b[j] == '!') && j+1 < len(b) && b[j+1] == '>' {
			return i, j + 2
		}
	}
	return -1, -1
}

// HConstruct: body of n free bytes after an already consumed opener; which selects the construct.
// The state function is entered at offset p = len(prefix) of prefix+body and must produce a token that starts at p,
// has length = index of the first terminator in body (or |body|), and resume right after the terminator.
func HConstruct(n int, which int) {
	body := vNondetString(n)
	var pre, term string
	var st int
	switch which {
	case 0: // <% ... %>
		pre, term, st = "<%", "%>", 17
	case 1: // <![CDATA[ ... ]]>
		pre, term, st = "<![CDATA[", "]]>", 19
	case 2: // <! ... >
		pre, term, st = "<!", ">", 16
	case 3: // <? ... >
		pre, term, st = "<?", ">", 16
	case 4: // doctype
		pre, term, st = "<!", ">", 20
	case 5: // <!-- ... --> / -!>
		pre, term, st = "<!--", "", 18
	case 6:
		pre, term, st = "<a b=\"", "\"", 11
	case 7:
		pre, term, st = "<a b='", "'", 12
	case 8:
		pre, term, st = "<a b=`", "`", 13
	case 9: // tokenizer started inside a double-quoted value (offset 0: nothing to skip)
		pre, term, st = "", "\"", 11
	case 10:
		pre, term, st = "", "'", 12
	case 11:
		pre, term, st = "", "`", 13
	}
	s := pre + body
	p := len(pre)
	if st >= 11 && st <= 13 && p > 0 {
		p-- // quoted value states are entered at the opening quote
	}
	h := &h5State{s: s, len: len(s), pos: p}
	vSetState(h, st)
	ok := h.next()
	vAssert(ok, "construct yields a token")
	off := len(s) - len(h.tokenStart)
	var wantLen, wantPos int
	if which == 5 {
		i, r := specCommentEnd(body)
		if i < 0 {
			wantLen, wantPos = n, -1
		} else {
			wantLen, wantPos = i, len(pre)+r
		}
	} else {
		i := specFirst(body, term)
		if i < 0 {
			wantLen, wantPos = n, -1
		} else {
			wantLen, wantPos = i, len(pre)+i+len(term)
		}
	}
	vAssert(off == len(pre), "token starts right after the opener")
	vAssert(h.tokenLen == wantLen, "token ends at the first terminator")
	if wantPos >= 0 {
		vAssert(h.pos == wantPos, "tokenizing resumes right after the terminator")
	} else {
		// unterminated: the next step must not produce anything inside the body
		more := h.next()
		vAssert(!more, "unterminated construct runs to end of input")
	}
	vObserveInt("len", h.tokenLen)
	vObserveInt("pos", h.pos)
	vCover("checked")
}

// HOpener: the whole classifier on a fixed opener followed by n free bytes (T layer; covers the opener logic).
func HOpener(n int, which int, ctx int) {
	pre := [...]string{"<![CDATA[", "<!--", "<%", "<?", "<!", "<!doctype", "</", "<a ", "<a b=", "<a b='", "<a b=\"", "<a b=`", "&#", "&#x", "<a href=&#", "<a/", "<a b=c/", "<a href=&#x", "<a href=\"&#x6", "<a style=", "<a attributename=", "<!--[if", "<?xml", "<!entity", "<a href=  java"}[which]
	s := pre + vNondetString(n)
	ok := isXSS(s, ctx)
	vObserveBool("verdict", ok)
}

const vNumOpeners = 25

// HConstructAPI: same first-terminator property, observed through the tokenizer started in the data state on
// opener+body (so the opener recognition is included), for the constructs reachable from data state.
func HConstructAPI(n int, which int) {
	body := vNondetString(n)
	var pre, term string
	switch which {
	case 0:
		pre, term = "<%", "%>"
	case 1:
		pre, term = "<![CDATA[", "]]>"
	case 2:
		pre, term = "<!", ">"
		vAssume(n < 2 || body[0] != '-' || body[1] != '-')
		vAssume(n < 7 || vLowerASCII(body[:7]) != "doctype")
		vAssume(n < 7 || body[:7] != "[CDATA[")
	case 3:
		pre, term = "<?", ">"
	case 4:
		pre, term = "<!DoCtYpE", ">"
	case 5:
		pre, term = "<!--", ""
	}
	s := pre + body
	h := new(h5State)
	h.init(s, html5FlagsDataState)
	ok := h.next()
	vAssert(ok, "construct yields a token")
	off := len(s) - len(h.tokenStart)
	var wantLen, wantPos int
	if which == 5 {
		i, r := specCommentEnd(body)
		if i < 0 {
			wantLen, wantPos = n, -1
		} else {
			wantLen, wantPos = i, len(pre)+r
		}
	} else {
		i := specFirst(body, term)
		if i < 0 {
			wantLen, wantPos = n, -1
		} else {
			wantLen, wantPos = i, len(pre)+i+len(term)
		}
	}
	if which == 4 {
		// the doctype token starts at the keyword (after "<!"), so its length includes the 7 keyword bytes
		vAssert(off == 2, "doctype token starts after <!")
		vAssert(h.tokenLen == wantLen+7, "doctype token ends at the first >")
	} else {
		vAssert(off == len(pre), "token starts right after the opener")
		vAssert(h.tokenLen == wantLen, "token ends at the first terminator")
	}
	if wantPos >= 0 {
		vAssert(h.pos == wantPos, "tokenizing resumes right after the terminator")
	}
	vCover("checked")
}

// HOpenerAlpha: opener + n bytes over a small alphabet of bytes that matter to the comment / markup classifiers
// (NUL, a letter, terminators, back-tick): reaches longer bodies than fully free tails can.
func HOpenerAlpha(n int, which int, ctx int) {
	pre := [...]string{"<![CDATA[", "<!--", "<%", "<?", "<!", "<!doctype", "</", "<a ", "<a b=", "<a b='", "<a b=\"", "<a b=`", "&#", "&#x", "<a href=&#", "<a/", "<a b=c/", "<a href=&#x", "<a href=\"&#x6", "<a style=", "<a attributename=", "<!--[if", "<?xml", "<!entity", "<a href=  java"}[which]
	body := ""
	for i := 0; i < n; i++ {
		body += vB(vByteIn("\x00m>-!`[ "))
	}
	ok := isXSS(pre+body, ctx)
	vObserveBool("verdict", ok)
}
