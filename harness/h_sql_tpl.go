//go:build verif

package libinjection

// T layer for SQLi (C03, C10, C14, also C08/C12 on long inputs): attack templates with symbolic holes.
// Template syntax: {word} = keyword with the case of every letter free; ~ = separator (shape chosen by the job);
// ^ = SQL whitespace byte other than newline; # = any decimal digit; ? = any lower-case letter; everything else literal.

// vSep: separator shapes. 0: one SQL whitespace byte (any of the 8, incl. NUL and 0xA0), 1: two of them,
// 2: "/**/", 3: "/*" letter "*/", 4: one of the 6 ASCII whitespace bytes (for places where NUL / 0xA0 are not separators)
func vSep(shape int) string {
	switch shape {
	case 0:
		return vB(vSQLWS())
	case 1:
		return vB(vSQLWS()) + vB(vSQLWS())
	case 2:
		return "/**/"
	case 3:
		return "/*" + vB(vByteIn("abcxyz")) + "*/"
	case 4:
		return vB(vByteIn(" \t\n\v\f\r"))
	}
	return " "
}

func vExpand(t string, sep int) string {
	out := ""
	for i := 0; i < len(t); i++ {
		c := t[i]
		switch c {
		case '{':
			j := i + 1
			for t[j] != '}' {
				j++
			}
			out += vWord(t[i+1 : j])
			i = j
		case '~':
			out += vSep(sep)
		case '^':
			// whitespace inside a trailing line comment: any SQL whitespace byte except the newline that would end the comment
			out += vB(vByteIn(" \t\v\f\r\xa0\x00"))
		case '#':
			out += vB(vDigit())
		case '?':
			out += vB(vByteIn("abcdghjkmpwxyz"))
		default:
			out += vB(c)
		}
	}
	return out
}

var vSqlCtx = [...]string{"#", "#'", "#\"", "#)", "#')", "#\")", "?'", "#'))", "-#", "#.#"}

const vNumSqlCtx = 10

var vSqlTails = [...]string{"", "~--", "~--^?", "~#", "~/*", ";", "~--^", ";--", "~-- -"}

const vNumSqlTails = 9

// the attack bodies (after the context prefix); grouped by family
var vSqlAttacks = [...]string{
	// 0-11 boolean tautologies
	"~{or}~#=#", "~{or}~'?'='?", "~{and}~#=#", "~{or}~#<#", "~{or}~#>#", "~{or}~#<>#", "~{or}~#!=#", "~{or}~#~{like}~#", "~||~#=#", "~&&~#=#", "~{xor}~#=#", "~{or}~{not}~#=#",
	// 12-21 UNION SELECT extraction
	"~{union}~{select}~#", "~{union}~{select}~#,#", "~{union}~{select}~#,#,#", "~{union}~{all}~{select}~#,#", "~{union}~{select}~{null},{null}", "~{union}~{select}~'?',#", "~{union}~{select}~{version}()", "~{union}~{select}~?~{from}~?", "~{union}~{distinct}~{select}~#", "~{union}~{select}~@@{version}",
	// 22-29 stacked statements
	";~{drop}~{table}~?", ";~{select}~#", ";~{insert}~{into}~?~{values}(#)", ";~{exec}~?", ";~{shutdown}", ";~{waitfor}~{delay}~'#:#:#'", ";~{delete}~{from}~?", ";~{update}~?~{set}~?=#",
	// 30-39 time / error based function calls
	"~{and}~{sleep}(#)", "~{or}~{sleep}(#)", "~{and}~{benchmark}(#,{md5}(#))", "~{or}~{pg_sleep}(#)", "~{and}~{extractvalue}(#,#)", "~{and}~{updatexml}(#,#,#)", "~{or}~{load_file}('?')", "~{and}~#=({select}~#)", "~{and}~({select}~{count}(*)~{from}~?)>#", "~{or}~{ascii}({substring}(?,#,#))>#",
	// 40-43 file write
	"~{into}~{outfile}~'?'", "~{into}~{dumpfile}~'?'", "~{union}~{select}~#~{into}~{outfile}~'?'", "~{procedure}~{analyse}()",
	// 44-47 misc canonical
	"~{or}~#~{in}~(#)", "~{or}~#~{between}~#~{and}~#", "~{having}~#=#", "~{order}~{by}~#",
	// 48-51 T-SQL control flow after a stacked statement
	";~{if}~(#=#)~{select}~#", ";{if}(#=#)~{waitfor}~{delay}~'#:#:#'", ";~{if}~#=#~{drop}~{table}~?", "~{union}~{select}~#,#~{from}~?~{where}~#=#",
}

const vNumSqlAttacks = 52

// HSqlAttack (C03): context x attack x separator shape x tail; every instance must be reported as SQLi.
func HSqlAttack(ctx int, atk int, sep int, tail int) {
	s := vExpand(vSqlCtx[ctx]+vSqlAttacks[atk]+vSqlTails[tail], sep)
	ok, fp := IsSQLi(s)
	vAssert(ok, "canonical attack is reported as SQLi")
	vAssert(len(fp) >= 1 && len(fp) <= 5, "detected attack comes with a fingerprint of 1 to 5 classes")
	vObserveStr("input", s)
	vObserveStr("fp", fp)
	vCover("checked")
}

// near-benign inputs that reach the whitelist rules (token-count dependent exemptions, quote-context readings,
// MySQL re-parse): the interesting region for "each reading is independent of the readings tried before it".
var vSqlNear = [...]string{
	"?'~{and}~?", "#'~{or}~#", "?\"~{and}~#", "#~{union}", "#'~{union}", "?~--^?", "#~{and}~#", "?'~{and}~?~--", "#'~&&~#", "?'~||~?",
	"#~--", "#--", "#~#", "?'~--", "#'~#~?", "#\"~{or}~'?'", "?'~{and}~@?", "#'~{and}~#~#", "#'--", "?'#", "#;~?", "{select}~?~{from}~?",
	"?'~{or}~?'", "#'~{and}~'#", "?\"~{or}~\"?", "#'~{xor}~#", "#~{or}~#", "?~{and}~#<#", "#'~{and}~#<#", "'~{or}~'", "\"~{and}~\"", "#'~{or}~#~--^?#",
	"#'\"~{and}~#", "?'?\"~{or}~#=#~--", "?'?\"~{union}~{select}~#,#~--", "\"?'~{or}~#=#", "'~&&~?", "?'~{and}~-?", "?\"~{or}~~?", "'~{or}~?",
	"?~?~--^sp_password", "?~?~?~--sp_password", "#~?~/*sp_password*/", "?'~?~--^sp_password", "?~--^{sp_password}", "#~?~#~?~#~--^sp_password",
	"?--#/*", "@--?/*=", "?--?/*#'--'", "e'~{or}~#=#~--", "n'?\"~{union}~{select}~#~--", "#'~{union}~#\"", "#'--#~{union}~\"",
	"?)-({in}~{union}~{select}~#", "#),(\\*#", "#),(\\*#~{union}~{select}~#", "'+'?'+'", "'||'?'||'", "'?'~'?", "q'!?!'~'?\\'",
	"#~;~#~;~#~;~#~;~#~;~#'~{or}~#=#~--", "{user}.?~{and}~#", "'?'~{and}~{user}.?", "#~{union}", "@?~~{union}~",
}

const vNumSqlNear = 65

func HSqlNearRel(i int, sep int) {
	s := vExpand(vSqlNear[i], sep)
	vRelations(s)
	vCover("checked")
}

// HSqlAttackRel (C08 / C12 / C16 on long inputs): on the same inputs, the verdict/fingerprint relation, the cascade
// on fresh state, and the token-stream shape.
func HSqlAttackRel(ctx int, atk int, sep int, tail int) {
	s := vExpand(vSqlCtx[ctx]+vSqlAttacks[atk]+vSqlTails[tail], sep)
	vRelations(s)
	vCover("checked")
}

// vRelations: the verdict/fingerprint relation (C08), the cascade on fresh state (C12) and the token-stream shape (C16) on s.
func vRelations(s string) {
	n := len(s)
	b, f := IsSQLi(s)
	// C08
	if !b {
		vAssert(f == "", "false verdict comes with the empty fingerprint")
	} else {
		vAssert(len(f) >= 1 && len(f) <= 5, "fingerprint has 1 to 5 characters")
		for i := 0; i < len(f); i++ {
			vAssert(vFpCharOK(f[i]), "fingerprint characters are token classes")
			if f[i] == 'c' {
				vAssert(i == len(f)-1, "comment class only in last position")
			}
		}
		vAssert(sqlKeywords[vUpperASCII("0"+f)] == 'F', "fingerprint is a key of the shipped blacklist")
	}
	// C12: the documented cascade on fresh state
	wantB, wantF := false, ""
	fp, ok, re := vCtx(s, sqliFlagQuoteNone|sqliFlagSQLAnsi)
	if ok {
		wantB, wantF = true, fp
	} else if re {
		fp, ok, _ = vCtx(s, sqliFlagQuoteNone|sqliFlagSQLMysql)
		if ok {
			wantB, wantF = true, fp
		}
	}
	if !wantB && vIndexByte(s, '\'') != -1 {
		fp, ok, re = vCtx(s, sqliFlagQuoteSingle|sqliFlagSQLAnsi)
		if ok {
			wantB, wantF = true, fp
		} else if re {
			fp, ok, _ = vCtx(s, sqliFlagQuoteSingle|sqliFlagSQLMysql)
			if ok {
				wantB, wantF = true, fp
			}
		}
	}
	if !wantB && vIndexByte(s, '"') != -1 {
		fp, ok, _ = vCtx(s, sqliFlagQuoteDouble|sqliFlagSQLMysql)
		if ok {
			wantB, wantF = true, fp
		}
	}
	vAssert(b == wantB, "IsSQLi verdict equals the documented cascade on fresh state")
	vAssert(f == wantF, "IsSQLi fingerprint is that of the first firing context")
	// C12: virtual quote equivalence on the remainder after the first quote is not expressible here; C16 stream shape:
	st := new(sqliState)
	sqliInit(st, s, sqliFlagQuoteNone|sqliFlagSQLAnsi)
	prevEnd, count := 0, 0
	for {
		before := st.pos
		st.current = &st.tokenVec[0]
		if !st.tokenize() {
			break
		}
		count++
		vTokenShape(s, n, st.current, before, st.pos)
		vAssert(st.current.pos >= prevEnd, "tokens strictly ordered and non-overlapping")
		prevEnd = st.current.pos + st.current.len
	}
	vAssert(st.pos == n, "scan ends exactly at end of input")
}

// HSqlCaseT (C10): two independent case assignments of the same attack text give the same verdict and fingerprint.
func HSqlCaseT(ctx int, atk int, tail int) {
	t := vSqlCtx[ctx] + vSqlAttacks[atk] + vSqlTails[tail]
	// fix the non-letter holes once, then draw the letter cases twice
	base := ""
	for i := 0; i < len(t); i++ {
		c := t[i]
		switch c {
		case '~', '^':
			base += " "
		case '#':
			base += "1"
		case '?':
			base += "x"
		case '{', '}':
		default:
			base += vB(c)
		}
	}
	s1 := vWord(base)
	s2 := vWord(base)
	b1, f1 := IsSQLi(s1)
	b2, f2 := IsSQLi(s2)
	vAssert(b1 == b2, "verdict invariant under ASCII case changes")
	vAssert(f1 == f2, "fingerprint invariant under ASCII case changes")
	vCover("checked")
}

// ---- C14: benign inputs

func vIdent(n int) string {
	out := make([]byte, 0, n)
	out = append(out, vByteIn("abcdefghijklmnopqrstuvwxyzABCDEFGHIJKLMNOPQRSTUVWXYZ_"))
	for i := 1; i < n; i++ {
		out = append(out, vByteIn("abcdefghijklmnopqrstuvwxyzABCDEFGHIJKLMNOPQRSTUVWXYZ_0123456789"))
	}
	w := string(out)
	vAssume(vNotKeyComponent(w))
	return w
}

func vNum(n int) string {
	out := make([]byte, 0, n)
	for i := 0; i < n; i++ {
		out = append(out, vDigit())
	}
	return string(out)
}

// HBenign: k items separated by single spaces; item i is a number if bit i of numMask is set, else an identifier of wl
// letters that is not (a component of) a keyword-table key.
func HBenign(k int, numMask int, wl int, nl int) {
	s := ""
	for i := 0; i < k; i++ {
		if i > 0 {
			s += " "
		}
		if numMask&(1<<uint(i)) != 0 {
			s += vNum(nl)
		} else {
			s += vIdent(wl)
		}
	}
	ok, fp := IsSQLi(s)
	vAssert(!ok, "plain words and numbers are not SQLi")
	vAssert(fp == "", "no fingerprint for benign input")
	vObserveStr("input", s)
	vCover("checked")
}

// HBenignShape: e-mail, decimal number and punctuated sentence shapes built from such words.
func HBenignShape(shape int, wl int) {
	var s string
	switch shape {
	case 0: // e-mail
		s = vIdent(wl) + "@" + vIdent(wl) + "." + vIdent(2)
	case 1: // decimal
		s = vNum(2) + "." + vNum(2)
	case 2: // thousands
		s = vNum(1) + "," + vNum(3) + "." + vNum(2)
	case 3: // sentence
		s = vIdent(wl) + " " + vIdent(wl) + ", " + vIdent(wl) + " " + vIdent(wl) + "."
	case 4: // e-mail with dotted local part
		s = vIdent(wl) + "." + vIdent(wl) + "@" + vIdent(wl) + "." + vIdent(3)
	case 5: // sentence with number
		s = vIdent(wl) + " " + vNum(2) + " " + vIdent(wl) + "."
	case 6: // price
		s = vIdent(wl) + " " + vNum(2) + "." + vNum(2)
	}
	ok, fp := IsSQLi(s)
	vAssert(!ok, "benign shape is not SQLi")
	vAssert(fp == "", "no fingerprint for benign input")
	vObserveStr("input", s)
	vCover("checked")
}

// HBlacklistN1: no fingerprint made only of bare-word and number classes is blacklisted (decided through the real blacklist()).
func HBlacklistN1(l int) {
	fp := make([]byte, 0, l)
	for i := 0; i < l; i++ {
		fp = append(fp, vByteIn("n1"))
	}
	st := new(sqliState)
	st.fingerprint = string(fp)
	vAssert(!st.blacklist(), "no {n,1} fingerprint is blacklisted")
	vCover("checked")
}

// HVirtualQuoteT (C12): on template text s, reading s inside quote q gives the same fingerprint as reading q+s as-is
// (same comment dialect), and the same verdict unless the fingerprint is sos / s&s.
func HVirtualQuoteT(i int, sep int, q int, mysql int) {
	s := vExpand(vSqlNear[i], sep)
	qb := byte('\'')
	qf := sqliFlagQuoteSingle
	if q == 1 {
		qb, qf = '"', sqliFlagQuoteDouble
	}
	d := sqliFlagSQLAnsi
	if mysql == 1 {
		d = sqliFlagSQLMysql
	}
	f1, ok1, _ := vCtx(s, qf|d)
	f2, ok2, _ := vCtx(vB(qb)+s, sqliFlagQuoteNone|d)
	vAssert(f1 == f2, "fingerprint inside quote equals fingerprint of quote+input as-is")
	if f1 != "sos" && f1 != "s&s" {
		vAssert(ok1 == ok2, "verdict inside quote equals verdict of quote+input as-is")
	}
	vCover("checked")
}

// HSqlAttackTotal (C01): the attack and near-benign templates with one extra free byte at the end, no assertion beyond
// the engine's implicit ones (index/slice/nil/division/step budget): long token sequences through fold and the whitelist.
func HSqlAttackTotal(ctx int, atk int, sep int, tail int) {
	s := vExpand(vSqlCtx[ctx]+vSqlAttacks[atk]+vSqlTails[tail], sep) + vNondetString(1)
	IsSQLi(s)
	vCover("done")
}

func HSqlNearTotal(i int, sep int) {
	s := vExpand(vSqlNear[i], sep) + vNondetString(1)
	IsSQLi(s)
	vCover("done")
}

// HBenignOne: a sentence of k items separated by single spaces in which exactly one item (index pos) is a free
// identifier of wl bytes (not a component of any keyword-table key) and the others are the fixed fillers "7"
// (bit set in numMask) or "zq". One free word keeps the keyword look-ups of a single token symbolic, so word
// lengths beyond HBenign's reach are decided (look-up implementations that fold or pack characters).
func HBenignOne(k int, numMask int, pos int, wl int) {
	s := ""
	for i := 0; i < k; i++ {
		if i > 0 {
			s += " "
		}
		if i == pos {
			s += vIdent(wl)
		} else if numMask&(1<<uint(i)) != 0 {
			s += "7"
		} else {
			s += "zq"
		}
	}
	ok, fp := IsSQLi(s)
	vAssert(!ok, "plain words and numbers are not SQLi")
	vAssert(fp == "", "no fingerprint for benign input")
	vObserveStr("input", s)
	vCover("checked")
}
