//go:build verif

package libinjection

// C19: character-reference decoder vs /verif/spec/entity.go, and script-capable URL schemes through encodings.

func HDecode(n int) {
	s := vNondetString(n)
	v, c := htmlDecodeByteAt(s)
	sv, sc := specDecode(s)
	if n == 0 {
		vAssert(c == 0, "empty input consumes nothing")
	} else {
		vAssert(c >= 1, "at least one byte per step")
		vAssert(c <= n, "never reads past the value")
	}
	vAssert(c == sc, "consumed count equals the reference decoder's")
	vAssert(v == sv, "decoded value equals the reference decoder's")
	vAssert(v <= 0x1000FF, "value capped at 0x1000FF")
	vObserveInt("v", v)
	vObserveInt("c", c)
	vCover("checked")
}

// vDec3 renders byte b as exactly three decimal digits (leading zeros included).
func vDec3(b byte) string {
	return string([]byte{'0' + b/100, '0' + (b/10)%10, '0' + b%10})
}

func vHexDigit(v byte) byte {
	// v in 0..15; letter digits get a free case bit
	if v < 10 {
		return '0' + v
	}
	if vNondetBool() {
		return 'a' + v - 10
	}
	return 'A' + v - 10
}

func vZeros(k int) string { return "0000"[:k] }

// vEnc encodes one scheme character c (case of a letter free) in the given form.
// 0 literal, 1 &#DDD; 2 &#DDD (no semicolon), 3 &#xHH; 4 &#xHH (no semicolon)
func vEnc(c byte, form int, zeros int) string {
	b := c
	if (c >= 'a' && c <= 'z') || (c >= 'A' && c <= 'Z') {
		b = vLetter(c)
	}
	switch form {
	case 1:
		return "&#" + vZeros(zeros) + vDec3(b) + ";"
	case 2:
		return "&#" + vZeros(zeros) + vDec3(b)
	case 3:
		return "&#" + vB(vByteIn("xX")) + vZeros(zeros) + vB(vHexDigit(b>>4)) + vB(vHexDigit(b&15)) + ";"
	case 4:
		return "&#" + vB(vByteIn("xX")) + vZeros(zeros) + vB(vHexDigit(b>>4)) + vB(vHexDigit(b&15))
	}
	return vB(b)
}

var vSchemes = [...]string{"javascript:", "vbscript:", "data:", "view-source:"}

var vURLAttrs = [...]string{"action", "attributename", "by", "background", "dataformatas", "datasrc", "dynsrc", "filter", "formaction", "folder", "from", "handler", "href", "lowsrc", "poster", "src", "style", "to", "values", "xlink:href"}

const vJunkSet = "\x00\x01\x08\x09\x0a\x0b\x0c\x0d\x1f\x20\x7f\x80\xa0\xc2\xe3\xff"

// HUrl: scheme sch with every character in form `form` (zeros leading zeros), except that positions listed in
// `mixPos` (bit mask) use form `form2`; junk leading bytes from {<=0x20} U {>=0x7F}; one NUL/LF inserted after
// scheme character nulAt (-1 none); tail free bytes.
func HUrl(sch int, form int, form2 int, mixMask int, zeros int, junk int, nulAt int, tail int) {
	scheme := vSchemes[sch]
	v := ""
	for i := 0; i < junk; i++ {
		b := vNondetByte()
		vAssume(b <= 0x20 || b >= 0x7f)
		v += vB(b)
	}
	for i := 0; i < len(scheme); i++ {
		f := form
		if mixMask&(1<<uint(i)) != 0 {
			f = form2
		}
		v += vEnc(scheme[i], f, zeros)
		if i == nulAt {
			v += vB(vByteIn("\x00\x0a"))
		}
	}
	t := vNondetString(tail)
	if tail > 0 {
		// a reference without ';' must not be continued by a digit of its own base
		vAssume(specHexVal(t[0]) < 0)
		for i := 0; i < tail; i++ {
			vAssume(t[i] != '"')
		}
	}
	v += t
	vAssert(isBlackURL(v), "script-capable scheme recognised through the encoding")
	vAssert(isXSS("<a href=\""+v+"\">", html5FlagsDataState), "URL attribute with the encoded scheme is XSS")
	vCover("checked")
}

// HDecodeT: references with many leading zeros (the interesting boundary for digit-count slips): "&#" [x] 0{zeros} + n free bytes.
func HDecodeT(n int, zeros int, hex int) {
	pre := "&#"
	if hex == 1 {
		pre += vB(vByteIn("xX"))
	}
	s := pre + "00000000000000000000"[:zeros] + vNondetString(n)
	v, c := htmlDecodeByteAt(s)
	sv, sc := specDecode(s)
	vAssert(c >= 1 && c <= len(s), "consumed count in range")
	vAssert(c == sc, "consumed count equals the reference decoder's")
	vAssert(v == sv, "decoded value equals the reference decoder's")
	vCover("checked")
}

// HClassTotal (C02): the classifiers never panic on any string. which: 0 tag, 1 attr, 2 URL, 3 decoder, 4 encoded prefix test.
func HClassTotal(n int, which int) {
	s := vNondetString(n)
	switch which {
	case 0:
		isBlackTag(s)
	case 1:
		isBlackAttr(s)
	case 2:
		isBlackURL(s)
	case 3:
		htmlDecodeByteAt(s)
	case 4:
		htmlEncodeStartsWith("JAVA", s)
	}
	vCover("done")
}

// HUrlLong: obfuscations that push the scheme far into the value (length-cap slips): kind 0: L leading blanks,
// 1: L NUL / LF bytes after the first scheme character, 2: every character as a zero-padded hex reference,
// 3: L leading "&#1;" (decoded control characters are skipped like leading white space), 4: L leading bytes >= 0x80, 5: L leading DEL bytes.
func HUrlLong(sch int, kind int, L int) {
	scheme := vSchemes[sch]
	v := ""
	switch kind {
	case 0:
		for i := 0; i < L; i++ {
			v += vB(vByteIn(" \t\n\r"))
		}
		v += vWord(scheme)
	case 1:
		v = vWord(scheme[:1])
		for i := 0; i < L; i++ {
			v += vB(vByteIn("\x00\x0a"))
		}
		v += vWord(scheme[1:])
	case 2:
		for i := 0; i < len(scheme); i++ {
			v += vEnc(scheme[i], 3, 4)
		}
	case 3:
		for i := 0; i < L; i++ {
			v += "&#1;"
		}
		v += vWord(scheme)
	case 4:
		for i := 0; i < L; i++ {
			v += vB(vByteIn("\x80\xa0\xff"))
		}
		v += vWord(scheme)
	case 5:
		for i := 0; i < L; i++ {
			v += "\x7f"
		}
		v += vWord(scheme)
	}
	v += vB(vByteIn("ax1("))
	vAssert(isBlackURL(v), "script-capable scheme recognised behind a long obfuscation")
	vAssert(isXSS("<a href=\""+v+"\">", html5FlagsDataState), "URL attribute with the obfuscated scheme is XSS")
	if kind != 1 {
		// (an LF inside an unquoted value ends the value, so the NUL/LF family is only checked quoted)
		vAssert(IsXSS("x\" src="+v), "URL attribute breaking out of a double-quoted value is XSS")
	}
	vCover("checked")
}

// HDecodeBig: references whose value is near the 0x1000FF cap (prefix fixes the high digits, n free bytes follow).
func HDecodeBig(n int, which int) {
	pre := [...]string{"&#x10", "&#x1", "&#X10F", "&#11", "&#10", "&#1048", "&#x0010"}[which]
	s := pre + vNondetString(n)
	v, c := htmlDecodeByteAt(s)
	sv, sc := specDecode(s)
	vAssert(c == sc, "consumed count equals the reference decoder's")
	vAssert(v == sv, "decoded value equals the reference decoder's")
	vAssert(v <= 0x1000FF, "value capped at 0x1000FF")
	vCover("checked")
}
