//go:build verif

package libinjection

// C10: SQLi detection is insensitive to ASCII letter case (outside the exempt positions).

// vNoExempt assumes that s contains none of the case-sensitive constructs the property exempts:
// backslash (\N), '$' (dollar-quote tags), and a q' / Q' opener (q-quote delimiters).
func vNoExempt(s string, n int) {
	for i := 0; i < n; i++ {
		vAssume(s[i] != '\\')
		vAssume(s[i] != '$')
	}
	for i := 0; i+1 < n; i++ {
		vAssume(vUpperASCII(s[i:i+1]) != "Q" || s[i+1] != '\'')
	}
}

func vFlipSql(s string, n int) string {
	out := make([]byte, 0, n)
	for i := 0; i < n; i++ {
		b := s[i]
		m := vNondetBool()
		if m && vUpperASCII(s[i:i+1]) != vLowerASCII(s[i:i+1]) {
			b ^= 0x20
		}
		out = append(out, b)
	}
	return string(out)
}

func HSqliCase(n int) {
	s := vNondetString(n)
	vNoExempt(s, n)
	t := vFlipSql(s, n)
	b1, f1 := IsSQLi(s)
	b2, f2 := IsSQLi(t)
	vAssert(b1 == b2, "verdict invariant under ASCII case changes")
	vAssert(f1 == f2, "fingerprint invariant under ASCII case changes")
	vCover("checked")
}

// HLexCase: the first token of s and of its case variant agree in class, offsets, marks and resume offset.
func HLexCase(n int, flagsIdx int) {
	s := vNondetString(n)
	vNoExempt(s, n)
	t := vFlipSql(s, n)
	a := new(sqliState)
	sqliInit(a, s, vFlagSets[flagsIdx])
	b := new(sqliState)
	sqliInit(b, t, vFlagSets[flagsIdx])
	ma := a.tokenize()
	mb := b.tokenize()
	vAssert(ma == mb, "token produced in both")
	if ma {
		vAssert(a.current.category == b.current.category, "token class invariant under case changes")
		vAssert(a.current.pos == b.current.pos, "token offset invariant under case changes")
		vAssert(a.current.len == b.current.len, "token length invariant under case changes")
		vAssert(a.current.strOpen == b.current.strOpen && a.current.strClose == b.current.strClose, "string marks invariant under case changes")
		vAssert(vUpperASCII(a.current.val) == vUpperASCII(b.current.val), "token values equal up to case")
	}
	vAssert(a.pos == b.pos, "resume offset invariant under case changes")
	vAssert(a.statsCommentDDX == b.statsCommentDDX && a.statsCommentHash == b.statsCommentHash, "comment counters invariant under case changes")
	vCover("checked")
}
