//go:build verif

package libinjection

// Systematic token-class sequences (T layer for C06 / C08 / C12 / C16 / C01): every sequence of k items over 26
// class representatives, separated by one SQL whitespace byte. Letter case of keywords, digits, identifier letters and
// the whitespace bytes are symbolic holes; the choice of sequence is enumerated (vIntIn inside one job forks per sequence).

var vSeqItems = [...]string{
	"#",         // 1  number
	"?",         // n  bare word
	"'?'",       // s  string
	"@?",        // v  variable
	"=",         // o  operator
	"-",         // o  unary operator
	"{and}",     // &  logic operator
	"{or}",      // &
	"{from}",    // k  keyword
	"{union}",   // U
	"{select}",  // E
	"{having}",  // B
	"{int}",     // t  SQL type
	"{sleep}",   // f  function
	"(",         // (
	")",         // )
	",",         // ,
	";",         // ;
	"/*?*/",     // c  comment
	"{collate}", // A
	".",         // .
	"{",         // {
	"}",         // }
	"\\",        // backslash
	"{not}",     // o  NOT
	"{into}",    // k  INTO (whitelist rule)
}

const vNumSeqItems = 26

// vSeq builds sequence number `code` (base-26 digits, k of them).
func vSeq(k int, code int) string {
	s := ""
	for i := 0; i < k; i++ {
		if i > 0 {
			s += vB(vSQLWS())
		}
		it := vSeqItems[code%vNumSeqItems]
		if len(it) == 1 && it != "#" && it != "?" {
			s += it // single punctuation byte, literal (braces are template syntax)
		} else {
			s += vExpand(it, 0)
		}
		code /= vNumSeqItems
	}
	return s
}

// HSqlSeqRel: C08 / C12 / C16 relations on every sequence with lo <= code <= hi.
func HSqlSeqRel(k int, lo int, hi int) {
	code := vIntIn(lo, hi)
	s := vSeq(k, code)
	vRelations(s)
	vCover("checked")
}

// HSqlSeqTotal (C01): no run-time failure on the sequence followed by one free byte.
func HSqlSeqTotal(k int, lo int, hi int) {
	code := vIntIn(lo, hi)
	s := vSeq(k, code) + vNondetString(1)
	IsSQLi(s)
	vCover("done")
}
