//go:build verif

package libinjection

// C18: SQL string literals end at their first real terminator, in every literal form.
// Each harness runs the real lexer entry on a free input and compares (content offset, content length, closed?,
// resume offset) with the oracle in /verif/spec/strlit.go.

func vClip(n int) int {
	if n > 31 {
		return 31
	}
	return n
}

// HStrCore: parseStringCore directly. mode 0: virtual quote (offset 0) with delimiter ' or "; mode 1: real quote
// (offset 1, delimiter one of ' " `), mode 2: two-byte prefix (offset 2: n'/e'), delimiter '.
func HStrCore(n int, mode int) {
	s := vNondetString(n)
	var d byte
	off := mode
	switch mode {
	case 0:
		d = vByteIn("'\"")
	case 1:
		d = vByteIn("'\"`")
		vAssume(s[0] == d)
	case 2:
		d = '\''
		vAssume(s[1] == d)
	}
	t := new(sqliToken)
	next := t.parseStringCore(s, n, 0, off, d)
	clen, closed, snext := specQuoted(s, off, d)
	vAssert(t.category == sqliTokenTypeString, "string token")
	vAssert(t.pos == off, "content offset")
	vAssert(t.len == vClip(clen), "content length ends at the first real terminator")
	vAssert((t.strClose == d) == closed, "closed flag")
	vAssert(closed || t.strClose == 0, "unclosed literal has no close mark")
	vAssert(next == snext, "resume offset right after the terminator")
	if off > 0 {
		vAssert(t.strOpen == d, "open mark is the delimiter")
	} else {
		vAssert(t.strOpen == 0, "virtual quote has no open mark")
	}
	vAssert(t.val == s[off:off+vClip(clen)], "token value is the content")
	vObserveInt("len", t.len)
	vObserveInt("next", next)
	vCover("checked")
}

// HStrLex: the same through the tokenizer entry (dispatch included), first token of a free input.
// form 0: ' " (parseString), 1: ` (parseTick), 2: n'..' / N'..' (parseNqString->parseEString), 3: e'/E',
// 4: u&'..' / U&', 5: @'..' @".." @`..`, 6: @@'..', 7: virtual quote (flags single/double).
func HStrLex(n int, form int, flagsIdx int) {
	s := vNondetString(n)
	flags := [...]int{sqliFlagQuoteNone | sqliFlagSQLAnsi, sqliFlagQuoteNone | sqliFlagSQLMysql, sqliFlagQuoteSingle | sqliFlagSQLAnsi, sqliFlagQuoteSingle | sqliFlagSQLMysql, sqliFlagQuoteDouble | sqliFlagSQLMysql}[flagsIdx]
	var d byte
	start := 0
	wantCat := sqliTokenTypeString
	wantOpen := byte(0)
	switch form {
	case 0:
		d = vByteIn("'\"")
		vAssume(s[0] == d)
		start, wantOpen = 1, d
	case 1:
		d = '`'
		vAssume(s[0] == d)
		start, wantOpen = 1, d
		wantCat = 0 // bareword or function
	case 2:
		vAssume(vUpperASCII(s[:1]) == "N")
		vAssume(s[1] == '\'')
		d, start, wantOpen = '\'', 2, '\''
	case 3:
		vAssume(vUpperASCII(s[:1]) == "E")
		vAssume(s[1] == '\'')
		d, start, wantOpen = '\'', 2, '\''
	case 4:
		vAssume(vUpperASCII(s[:1]) == "U")
		vAssume(s[1] == '&')
		vAssume(s[2] == '\'')
		d, start, wantOpen = '\'', 3, 'u'
	case 5:
		d = vByteIn("'\"`")
		vAssume(s[0] == '@')
		vAssume(s[1] == d)
		start, wantOpen = 2, d
		wantCat = sqliTokenTypeVariable
	case 6:
		d = vByteIn("'\"`")
		vAssume(s[0] == '@')
		vAssume(s[1] == '@')
		vAssume(s[2] == d)
		start, wantOpen = 3, d
		wantCat = sqliTokenTypeVariable
	case 7:
		if flags&sqliFlagQuoteSingle != 0 {
			d = '\''
		} else {
			d = '"'
		}
		start, wantOpen = 0, 0
	}
	if form <= 6 {
		vAssume(flags&sqliFlagQuoteNone != 0)
	} else {
		vAssume(flags&sqliFlagQuoteNone == 0)
	}
	if (form == 2 || form == 3) && n <= 2 {
		return // "n'" alone is a word, not a literal
	}
	st := new(sqliState)
	sqliInit(st, s, flags)
	more := st.tokenize()
	vAssert(more, "a token is produced")
	t := st.current
	clen, closed, snext := specQuoted(s, start, d)
	if wantCat != 0 {
		vAssert(t.category == wantCat, "token class")
	} else {
		vAssert(t.category == sqliTokenTypeBareWord || t.category == sqliTokenTypeFunction, "back-tick word class")
	}
	vAssert(t.pos == start, "content offset")
	vAssert(t.len == vClip(clen), "content length ends at the first real terminator")
	wantClose := d
	if form == 4 {
		wantClose = 'u'
	}
	if closed {
		vAssert(t.strClose == wantClose, "closed flag")
	} else {
		vAssert(t.strClose == 0, "unclosed literal has no close mark")
	}
	vAssert(t.strOpen == wantOpen, "open mark")
	vAssert(st.pos == snext, "resume offset right after the terminator")
	vAssert(t.val == s[start:start+vClip(clen)], "token value is the content")
	vCover("checked")
}

// HQStr: Oracle q-quote q'X...X' with X any byte >= 33 (all 223 in one symbolic run); nq = 1 for nq'X...X'.
func HQStr(n int, nq int) {
	s := vNondetString(n)
	p := 0
	if nq == 1 {
		vAssume(vUpperASCII(s[:1]) == "N")
		p = 1
	}
	vAssume(vUpperASCII(s[p:p+1]) == "Q")
	vAssume(s[p+1] == '\'')
	open := s[p+2]
	vAssume(open >= 33)
	st := new(sqliState)
	sqliInit(st, s, sqliFlagQuoteNone|sqliFlagSQLAnsi)
	more := st.tokenize()
	vAssert(more, "a token is produced")
	t := st.current
	clen, closed, snext := specQString(s, p+3, open)
	vAssert(t.category == sqliTokenTypeString, "string token")
	vAssert(t.pos == p+3, "content offset")
	vAssert(t.len == vClip(clen), "content ends at the first closing delimiter followed by a quote")
	vAssert(t.strOpen == 'q', "open mark")
	if closed {
		vAssert(t.strClose == 'q', "closed flag")
	} else {
		vAssert(t.strClose == 0, "unclosed literal has no close mark")
	}
	vAssert(st.pos == snext, "resume offset right after the terminator")
	vAssert(t.val == s[p+3:p+3+vClip(clen)], "token value is the content")
	vCover("checked")
}

// HDollar: $tag$ ... $tag$ with a tag of k letters (k = 0 is $$).
func HDollar(n int, k int) {
	s := vNondetString(n)
	vAssume(s[0] == '$')
	for i := 1; i <= k; i++ {
		c := s[i]
		vAssume(vUpperASCII(s[i:i+1]) != vLowerASCII(s[i:i+1])) // an ASCII letter
		_ = c
	}
	vAssume(s[k+1] == '$')
	st := new(sqliState)
	sqliInit(st, s, sqliFlagQuoteNone|sqliFlagSQLAnsi)
	more := st.tokenize()
	vAssert(more, "a token is produced")
	t := st.current
	clen, closed, snext := specDollar(s, 0, k+2)
	vAssert(t.category == sqliTokenTypeString, "string token")
	vAssert(t.pos == k+2, "content offset")
	vAssert(t.len == vClip(clen), "content ends at the first repetition of the tag")
	vAssert(t.strOpen == '$', "open mark")
	if closed {
		vAssert(t.strClose == '$', "closed flag")
	} else {
		vAssert(t.strClose == 0, "unclosed literal has no close mark")
	}
	vAssert(st.pos == snext, "resume offset right after the terminator")
	vAssert(t.val == s[k+2:k+2+vClip(clen)], "token value is the content")
	vCover("checked")
}

// HStrLongT: literal forms with a long body (L bytes from a two-letter set) around the 31/32-byte clipping boundary,
// followed by `post` free bytes: content length clipped, resume offset right after the real terminator.
// form 0: '..' 1: ".." 2: `..` 3: q'(..)' 4: $$..$$ 5: $t$..$t$ 6: n'..' 7: @'..' 8: unterminated '.. 9: nq'[..]'
func HStrLongT(form int, L int, post int) {
	body := ""
	for i := 0; i < L; i++ {
		body += vB(vByteIn("ac"))
	}
	var pre, suf string
	switch form {
	case 0:
		pre, suf = "'", "'"
	case 1:
		pre, suf = "\"", "\""
	case 2:
		pre, suf = "`", "`"
	case 3:
		pre, suf = "q'(", ")'"
	case 4:
		pre, suf = "$$", "$$"
	case 5:
		pre, suf = "$t$", "$t$"
	case 6:
		pre, suf = "n'", "'"
	case 7:
		pre, suf = "@'", "'"
	case 8:
		pre, suf = "'", ""
	case 9:
		pre, suf = "nq'[", "]'"
	}
	tail := vNondetString(post)
	if post > 0 && suf != "" {
		// keep the terminator a real terminator: not doubled by the next byte
		vAssume(tail[0] != suf[len(suf)-1])
	}
	if form == 8 {
		for i := 0; i < post; i++ {
			vAssume(tail[i] != '\'')
		}
	}
	s := pre + body + suf + tail
	st := new(sqliState)
	sqliInit(st, s, sqliFlagQuoteNone|sqliFlagSQLAnsi)
	more := st.tokenize()
	vAssert(more, "a token is produced")
	t := st.current
	wantLen := L
	wantNext := len(pre) + L + len(suf)
	if form == 8 {
		wantLen = L + post
		wantNext = len(s)
	}
	vAssert(t.pos == len(pre), "content offset")
	vAssert(t.len == vClip(wantLen), "content length clipped to 31")
	vAssert(st.pos == wantNext, "resume offset right after the terminator")
	vAssert(t.val == s[len(pre):len(pre)+vClip(wantLen)], "token value is the content")
	vCover("checked")
}

// HStrSecond: a literal tokenised into a slot that already held another (closed) literal: the second token of
// pre + free bytes, where pre is a closed literal of each form and the free part opens with ' " or `.
func HStrSecond(n int, first int) {
	pre := [...]string{"'a' ", "\"a\" ", "q'!a!' ", "$$a$$ ", "u&'a' ", "`a` ", "@'a' ", "1 "}[first]
	s := pre + vNondetString(n)
	d := vByteIn("'\"`")
	o := len(pre)
	vAssume(s[o] == d)
	st := new(sqliState)
	sqliInit(st, s, sqliFlagQuoteNone|sqliFlagSQLAnsi)
	vAssert(st.tokenize(), "first token is produced")
	vAssert(st.current.strClose != 0 || first == 7, "first literal is closed")
	vAssert(st.tokenize(), "second token is produced")
	t := st.current
	clen, closed, snext := specQuoted(s, o+1, d)
	vAssert(t.pos == o+1, "content offset")
	vAssert(t.len == vClip(clen), "content length ends at the first real terminator")
	if closed {
		vAssert(t.strClose == d, "closed flag")
	} else {
		vAssert(t.strClose == 0, "unclosed literal has no close mark")
	}
	vAssert(t.strOpen == d, "open mark")
	vAssert(st.pos == snext, "resume offset right after the terminator")
	vAssert(t.val == s[o+1:o+1+vClip(clen)], "token value is the content")
	vCover("checked")
}
