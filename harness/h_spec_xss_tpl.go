//go:build verif

package libinjection

// C07, T layer: every baseline name (case of each letter free, one NUL at a free interior position, optional free
// suffix byte) through the implementation's and the reference's classifier, and the vector built from it through both
// context classifiers.
func HSpecNameT(kind int, idx int, ctx int) {
	var name string
	switch kind {
	case 0:
		name = "on" + vBaseEvents[idx]
	case 1:
		name = vBaseBlacks[idx].name
	case 2:
		name = vBaseTags[idx]
	}
	a := vName(name, 0)
	k := vIntIn(0, len(name)-1)
	if k > 0 {
		a = a[:k] + "\x00" + a[k:]
	}
	a += vNondetString(1)
	if kind == 2 {
		vAssert(isBlackTag(a) == specBlackTag(a), "tag classification equals the reference")
		v := vBreakout(ctx, true) + "<" + a + ">"
		vAssert(isXSS(v, ctx) == specIsXSS(v, ctx), "context verdict equals the reference")
	} else {
		vAssert(isBlackAttr(a) == specBlackAttr(a), "attribute classification equals the reference")
		v := vBreakout(ctx, false) + " " + a + "=" + vB(vByteIn("ax1(j")) + ">"
		vAssert(isXSS(v, ctx) == specIsXSS(v, ctx), "context verdict equals the reference")
	}
	vCover("checked")
}
