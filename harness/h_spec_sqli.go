//go:build verif

package libinjection

// C06: the SQLi pipeline vs the reference specification (/verif/spec/sqltok.go, sqlfold.go).

func vTokEq(t *sqliToken, r specTok, label string) {
	vAssert(t.category == r.cls, "token class equals the reference")
	vAssert(t.pos == r.pos, "token offset equals the reference")
	vAssert(t.len == r.len, "token length equals the reference")
	vAssert(t.val == r.val, "token value equals the reference")
	vAssert(t.strOpen == r.open, "open mark equals the reference")
	vAssert(t.strClose == r.close, "close mark equals the reference")
	if r.cls == 'v' {
		vAssert(t.count == r.count, "variable @-count equals the reference")
	}
}

// HSpecLex (U): first scan step in each mode.
func HSpecLex(n int, flagsIdx int) {
	s := vNondetString(n)
	flags := vFlagSets[flagsIdx]
	st := new(sqliState)
	sqliInit(st, s, flags)
	more := st.tokenize()
	l := specNewLex(s, flags)
	r, ok := specStep(l)
	vAssert(more == ok, "token produced exactly when the reference produces one")
	if more {
		vTokEq(st.current, r, "first")
		vObserveByte("class", r.cls)
		vObserveInt("len", r.len)
	}
	vAssert(st.pos == l.pos, "resume offset equals the reference")
	vAssert(st.statsCommentDDX == l.ddx, "dash-dash-x counter equals the reference")
	vAssert(st.statsCommentHash == l.hash, "hash counter equals the reference")
	vCover("checked")
}

// HSpecStream (W): the whole token stream in one mode.
func HSpecStream(n int, flagsIdx int) {
	s := vNondetString(n)
	flags := vFlagSets[flagsIdx]
	st := new(sqliState)
	sqliInit(st, s, flags)
	l := specNewLex(s, flags)
	for {
		st.current = &st.tokenVec[0]
		more := st.tokenize()
		r, ok := specStep(l)
		vAssert(more == ok, "token produced exactly when the reference produces one")
		if !more {
			break
		}
		vTokEq(st.current, r, "stream")
		vAssert(st.pos == l.pos, "resume offset equals the reference")
	}
	vAssert(st.statsCommentDDX == l.ddx, "dash-dash-x counter equals the reference")
	vAssert(st.statsCommentHash == l.hash, "hash counter equals the reference")
	vAssert(st.statsTokens == l.ntok, "token counter equals the reference")
	vCover("checked")
}

// HSpecFold (W): folded tokens, fingerprint and per-context verdict in one mode.
func HSpecFold(n int, flagsIdx int) {
	s := vNondetString(n)
	flags := vFlagSets[flagsIdx]
	st := new(sqliState)
	sqliInit(st, s, flags)
	fp := st.sqliFingerprint(flags)
	ok := st.checkFingerprint()
	wfp, wok, wre, r := specContext(s, flags)
	vAssert(fp == wfp, "fingerprint equals the reference")
	vAssert(len(r.toks) == len(fp) || fp == "X", "reference token count matches the fingerprint")
	if fp != "X" {
		for i := 0; i < len(fp); i++ {
			vAssert(st.tokenVec[i].category == r.toks[i].cls, "folded token class equals the reference")
			vAssert(st.tokenVec[i].val == r.toks[i].val, "folded token value equals the reference")
			vAssert(st.tokenVec[i].len == r.toks[i].len, "folded token length equals the reference")
		}
	}
	vAssert(ok == wok, "context verdict equals the reference")
	vAssert((st.statsCommentDDX != 0 || st.statsCommentHash != 0) == wre, "MySQL re-parse trigger equals the reference")
	vAssert(st.statsTokens == r.ntok, "token counter equals the reference")
	vObserveStr("fp", fp)
	vObserveBool("ok", ok)
	vCover("checked")
}

// HSpecIsSQLi (W): final API result.
func HSpecIsSQLi(n int) {
	s := vNondetString(n)
	b, f := IsSQLi(s)
	wb, wf := specIsSQLi(s)
	vAssert(b == wb, "IsSQLi verdict equals the reference")
	vAssert(f == wf, "IsSQLi fingerprint equals the reference")
	vObserveBool("verdict", b)
	vObserveStr("fp", f)
	vCover("checked")
}
