//go:build verif

package libinjection

// C05: frame condition (run with the engine's frame check on: any write to an object reachable from a package-level
// variable is a violation) and history independence.

func HFrameSqli(n int) {
	s := vNondetString(n)
	vObserveStr("input", s)
	IsSQLi(s)
	vCover("done")
}

func HFrameXss(n int, ctx int) {
	s := vNondetString(n)
	vObserveStr("input", s)
	isXSS(s, ctx)
	vCover("done")
}

// HFrameSqlT / HFrameXssT: the same on template inputs, so that the frame condition is also established on
// long, realistic inputs (keyword look-ups, merges, whitelist branches, URL decoding).
func HFrameSqlT(which int, n int) {
	op := [...]string{"1 union select ", "1' or 1=1 -- ", "1; drop table a -- ", "1 and sleep(1) #", "x' and 'a' like 'a", "1 or @@version /*", "q'(a)' ||", "1 into outfile 'a' ", "`a` collate utf8_bin ", "select \\N from {d `a`} where 0x1 in ($1,$$a$$) "}[which]
	s := op + vNondetString(n)
	vObserveStr("input", s)
	IsSQLi(s)
	vCover("done")
}

func HFrameXssT(which int, n int) {
	op := [...]string{"<a href=\"&#x6a;ava", "<a onclick=", "x' style=", "<!--[if ", "<svg/onload=", "<a attributename=on", "<?import ", "<![CDATA[", "x` xmlns=", "<a href=  java&#115cript:"}[which]
	s := op + vNondetString(n)
	vObserveStr("input", s)
	IsXSS(s)
	vCover("done")
}

// HHistSqli: the answer for x does not depend on a call made in between.
func HHistSqli(nx int, ny int) {
	x := vNondetString(nx)
	y := vNondetString(ny)
	b1, f1 := IsSQLi(x)
	IsSQLi(y)
	b2, f2 := IsSQLi(x)
	vAssert(b1 == b2, "IsSQLi verdict does not depend on an intervening call")
	vAssert(f1 == f2, "IsSQLi fingerprint does not depend on an intervening call")
	vCover("checked")
}

func HHistXss(nx int, ny int) {
	x := vNondetString(nx)
	y := vNondetString(ny)
	b1 := IsXSS(x)
	IsXSS(y)
	b2 := IsXSS(x)
	vAssert(b1 == b2, "IsXSS verdict does not depend on an intervening call")
	vCover("checked")
}

func HHistCross(nx int, ny int) {
	x := vNondetString(nx)
	y := vNondetString(ny)
	b1, f1 := IsSQLi(x)
	c1 := IsXSS(x)
	IsXSS(y)
	IsSQLi(y)
	b2, f2 := IsSQLi(x)
	c2 := IsXSS(x)
	vAssert(b1 == b2 && f1 == f2, "IsSQLi result does not depend on intervening calls of either detector")
	vAssert(c1 == c2, "IsXSS result does not depend on intervening calls of either detector")
	vCover("checked")
}

// HHistXssT: a closing tag left open by one call must not influence the next (template for pooled-state slips).
func HHistXssT(which int, n int) {
	y := [...]string{"</p class=x", "</a ", "<a b='", "<!--", "x' onclick", "<a href"}[which] + vNondetString(n)
	x := [...]string{"<script>", "<xss>a", "x onclick=1", "<a href=javascript:1>", "<!doctype", "plain text"}[which]
	b1 := IsXSS(x)
	IsXSS(y)
	b2 := IsXSS(x)
	vAssert(b1 == b2, "IsXSS verdict does not depend on an intervening call")
	for i := 0; i < 6; i++ {
		xx := [...]string{"<script>", "<xss>a", "x onclick=1", "<a href=javascript:1>", "<!doctype", "plain text"}[i]
		vAssert(IsXSS(xx) == (i != 5), "known vector still classified after an arbitrary earlier call")
	}
	vCover("checked")
}

// HHistSqliT: an input that tokenizes to nothing (white space, comments, unary operators, parentheses) must get the
// same answer whatever was analysed before it; and a known attack must still be detected after an arbitrary call.
func HHistSqliT(which int, n int) {
	y := [...]string{"1 UNION SELECT 1", "/*!x*/", "1' or 1=1 -- ", "1; drop table a", "x' and 'a'='a", "1 union all select null,null#"}[which] + vNondetString(n)
	for i := 0; i < 7; i++ {
		x := [...]string{" ", "(", "-", "-- hello", "/* note */", "", "+ ( -"}[i]
		b1, f1 := IsSQLi(x)
		IsSQLi(y)
		b2, f2 := IsSQLi(x)
		vAssert(b1 == b2 && f1 == f2, "IsSQLi result does not depend on an intervening call")
		vAssert(!b2 && f2 == "", "input without tokens is not SQLi, whatever ran before")
	}
	b, _ := IsSQLi("1 UNION SELECT 1")
	vAssert(b, "known attack still detected after an arbitrary earlier call")
	vCover("checked")
}
