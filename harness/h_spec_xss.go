//go:build verif

package libinjection

// C07: HTML5 tokenizer and XSS classifier vs the reference specification (/verif/spec/h5tok.go).

func vH5Compare(h *h5State, r *specH5, n int) {
	count := 0
	for {
		a := h.next()
		b := specH5Next(r)
		vAssert(a == b, "tokenizer stops exactly when the reference stops")
		if !a {
			break
		}
		count++
		vAssert(h.tokenType == r.ttype, "token type equals the reference")
		vAssert(n-len(h.tokenStart) == r.tstart, "token offset equals the reference")
		vAssert(h.tokenLen == r.tlen, "token length equals the reference")
		if count > n+2 {
			break
		}
	}
	vObserveInt("count", count)
}

// HSpecH5 (W): token stream from each of the five start contexts.
func HSpecH5(n int, ctx int) {
	s := vNondetString(n)
	h := new(h5State)
	h.init(s, ctx)
	r := specH5Init(s, ctx)
	vH5Compare(h, r, n)
	vCover("checked")
}

// HSpecH5State (U): token stream from an arbitrary state and offset satisfying the entry invariant.
func HSpecH5State(n int, which int, p int) {
	s := vNondetString(n)
	ic := vNondetBool()
	h := &h5State{s: s, len: n, pos: p, isClose: ic}
	vSetState(h, which)
	vEntryInvariant(which, s, n, p)
	r := &specH5{s: s, pos: p, state: which, isClose: ic}
	vH5Compare(h, r, n)
	vCover("checked")
}

// HSpecXss (W): context verdict.
func HSpecXss(n int, ctx int) {
	s := vNondetString(n)
	got := isXSS(s, ctx)
	want := specIsXSS(s, ctx)
	vAssert(got == want, "context verdict equals the reference")
	vObserveBool("verdict", got)
	vCover("checked")
}

// HSpecIsXSS (W): API verdict = OR of the reference context verdicts.
func HSpecIsXSS(n int) {
	s := vNondetString(n)
	got := IsXSS(s)
	want := false
	for ctx := 0; ctx < 5; ctx++ {
		if specIsXSS(s, ctx) {
			want = true
		}
	}
	vAssert(got == want, "IsXSS equals the OR of the reference context verdicts")
	vCover("checked")
}

// HSpecClass (U): the classifiers on free strings. which: 0 tag, 1 attribute, 2 URL, 3 comment body.
func HSpecClass(n int, which int) {
	s := vNondetString(n)
	switch which {
	case 0:
		vAssert(isBlackTag(s) == specBlackTag(s), "tag classification equals the reference")
	case 1:
		vAssert(isBlackAttr(s) == specBlackAttr(s), "attribute classification equals the reference")
	case 2:
		vAssert(isBlackURL(s) == specBlackURL(s), "URL classification equals the reference")
	case 3:
		for i := 0; i < n; i++ {
			// keep the comment unterminated so that the whole body is the token
			vAssume(s[i] != '-')
		}
		got := isXSS("<!--"+s, html5FlagsDataState)
		want := specCommentIsXSS(s)
		vAssert(got == want, "comment classification equals the reference")
	}
	vCover("checked")
}

// HSpecOpener (T): a markup opener with the case of its letters free, followed by n free bytes; token stream and verdict
// vs the reference from the data state and from the unquoted-attribute context.
func HSpecOpener(n int, which int, ctx int) {
	var pre string
	switch which {
	case 0:
		pre = "<![" + vWord("cdata") + "["
	case 1:
		pre = "<!" + vWord("doctype")
	case 2:
		pre = "<!--"
	case 3:
		pre = "<%"
	case 4:
		pre = "<?" + vWord("xml")
	case 5:
		pre = "<!--[" + vWord("if")
	case 6:
		pre = "<!" + vWord("entity")
	case 7:
		pre = "<?" + vWord("import")
	case 8:
		pre = "</" + vWord("a")
	case 9:
		pre = "<" + vWord("a") + " " + vWord("b") + "="
	}
	s := pre + vNondetString(n)
	h := new(h5State)
	h.init(s, ctx)
	r := specH5Init(s, ctx)
	vH5Compare(h, r, len(s))
	vAssert(isXSS(s, ctx) == specIsXSS(s, ctx), "context verdict equals the reference")
	vCover("checked")
}
