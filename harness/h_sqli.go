//go:build verif

package libinjection

// SQLi harnesses: C16 (token shape), C12 (context cascade, virtual quote), C08 (verdict/fingerprint relation).

var vFlagSets = [...]int{
	sqliFlagQuoteNone | sqliFlagSQLAnsi,
	sqliFlagQuoteNone | sqliFlagSQLMysql,
	sqliFlagQuoteSingle | sqliFlagSQLAnsi,
	sqliFlagQuoteSingle | sqliFlagSQLMysql,
	sqliFlagQuoteDouble | sqliFlagSQLMysql,
}

// vClassOK: membership in the documented token-class alphabet, as one byte-set test.
func vClassOK(c byte) bool {
	return vIndexByte("kUBEtfn1vso&cA(){}.,:;T?XF\\", c) != -1
}

// vTokenShape asserts the per-token part of C16 for the token just produced by one scan step.
func vTokenShape(s string, n int, t *sqliToken, before, after int) {
	vAssert(after > before, "scan step consumes at least one byte")
	vAssert(after <= n, "scan position stays inside the input")
	vAssert(t.len >= 0 && t.len <= 31, "token length clipped to 31")
	vAssert(t.pos >= before, "token starts inside the span of its scan step")
	vAssert(t.pos+t.len <= after, "token ends inside the span of its scan step")
	vAssert(len(t.val) == t.len, "value has the recorded length")
	vAssert(t.val == s[t.pos:t.pos+t.len], "token value is the input slice at its offset")
	vAssert(vClassOK(t.category), "token class is one of the documented class characters")
}

// HLex (U): first scan step of a free input in each of the five modes.
func HLex(n int, flagsIdx int) {
	s := vNondetString(n)
	st := new(sqliState)
	sqliInit(st, s, vFlagSets[flagsIdx])
	before := st.pos
	more := st.tokenize()
	if more {
		vTokenShape(s, n, st.current, before, st.pos)
		vObserveByte("class", st.current.category)
		vObserveInt("pos", st.current.pos)
		vObserveInt("len", st.current.len)
		vObserveInt("next", st.pos)
		vCover("token")
	} else {
		vAssert(st.pos == n, "scan ends exactly at end of input")
		vCover("end")
	}
}

// HStream (W): the whole token stream of a free input in one mode; per-token shape plus the chain conditions.
func HStream(n int, flagsIdx int) {
	s := vNondetString(n)
	st := new(sqliState)
	sqliInit(st, s, vFlagSets[flagsIdx])
	count := 0
	prevEnd := 0
	for {
		before := st.pos
		st.current = &st.tokenVec[0]
		more := st.tokenize()
		if !more {
			break
		}
		count++
		t := st.current
		vTokenShape(s, n, t, before, st.pos)
		vAssert(t.pos >= prevEnd, "tokens strictly ordered and non-overlapping")
		prevEnd = t.pos + t.len
		vAssert(count <= n, "no more tokens than input bytes")
	}
	vAssert(st.pos == n, "scan ends exactly at end of input")
	vAssert(st.statsTokens == count, "token counter equals the number of tokens produced")
	vObserveInt("count", count)
	vCover("end")
}

// ---- C12

// vCtx evaluates one parsing context on a FRESH state, as the property words it.
func vCtx(s string, flags int) (string, bool, bool) {
	st := new(sqliState)
	sqliInit(st, s, flags)
	fp := st.sqliFingerprint(flags)
	ok := st.checkFingerprint()
	return fp, ok, st.statsCommentDDX != 0 || st.statsCommentHash != 0
}

// HCascade: IsSQLi(s) equals the first firing element of the documented cascade, each evaluated on fresh state.
func HCascade(n int) {
	s := vNondetString(n)
	gotB, gotF := IsSQLi(s)
	wantB, wantF := false, ""
	if n > 0 {
		fp, ok, re := vCtx(s, sqliFlagQuoteNone|sqliFlagSQLAnsi)
		if ok {
			wantB, wantF = true, fp
		} else if re {
			fp, ok, _ = vCtx(s, sqliFlagQuoteNone|sqliFlagSQLMysql)
			if ok {
				wantB, wantF = true, fp
			}
		}
		if !wantB && vIndexByte(s, '\'') != -1 {
			fp, ok, re = vCtx(s, sqliFlagQuoteSingle|sqliFlagSQLAnsi)
			if ok {
				wantB, wantF = true, fp
			} else if re {
				fp, ok, _ = vCtx(s, sqliFlagQuoteSingle|sqliFlagSQLMysql)
				if ok {
					wantB, wantF = true, fp
				}
			}
		}
		if !wantB && vIndexByte(s, '"') != -1 {
			fp, ok, _ = vCtx(s, sqliFlagQuoteDouble|sqliFlagSQLMysql)
			if ok {
				wantB, wantF = true, fp
			}
		}
	}
	vAssert(gotB == wantB, "IsSQLi verdict equals the documented cascade on fresh state")
	vAssert(gotF == wantF, "IsSQLi fingerprint is that of the first firing context")
	vObserveBool("verdict", gotB)
	vObserveStr("fp", gotF)
	vCover("checked")
}

// HVirtualQuote: reading s inside quote q gives the same fingerprint as reading q+s as-is (same comment dialect),
// and the same verdict unless the fingerprint is sos / s&s (whose whitelist rule looks at the open mark).
func HVirtualQuote(n int, q int, mysql int) {
	s := vNondetString(n)
	qb := byte('\'')
	qf := sqliFlagQuoteSingle
	if q == 1 {
		qb, qf = '"', sqliFlagQuoteDouble
	}
	d := sqliFlagSQLAnsi
	if mysql == 1 {
		d = sqliFlagSQLMysql
	}
	f1, ok1, _ := vCtx(s, qf|d)
	f2, ok2, _ := vCtx(vB(qb)+s, sqliFlagQuoteNone|d)
	vAssert(f1 == f2, "fingerprint inside quote equals fingerprint of quote+input as-is")
	if f1 != "sos" && f1 != "s&s" {
		vAssert(ok1 == ok2, "verdict inside quote equals verdict of quote+input as-is")
	}
	vObserveStr("fp", f1)
	vCover("checked")
}

// ---- C08

func vFpCharOK(c byte) bool {
	return vIndexByte("kUBEtfn1vso&cA(){}.,:;T?X\\", c) != -1
}

// HVerdictFp: the (verdict, fingerprint) pair returned by IsSQLi is consistent.
func HVerdictFp(n int) {
	s := vNondetString(n)
	b, f := IsSQLi(s)
	if !b {
		vAssert(f == "", "false verdict comes with the empty fingerprint")
		vCover("negative")
		return
	}
	vAssert(len(f) >= 1 && len(f) <= 5, "fingerprint has 1 to 5 characters")
	for i := 0; i < len(f); i++ {
		vAssert(vFpCharOK(f[i]), "fingerprint characters are token classes")
		if f[i] == 'c' {
			vAssert(i == len(f)-1, "comment class only in last position")
		}
	}
	vAssert(vIsKeyword("0"+f), "fingerprint is a key of the shipped table")
	vAssert(sqlKeywords[vUpperASCII("0"+f)] == 'F', "fingerprint key is classified as a fingerprint")
	// f is the fingerprint of s under at least one parsing context
	hit := false
	for i := 0; i < len(vFlagSets); i++ {
		fp, _, _ := vCtx(s, vFlagSets[i])
		if fp == f {
			hit = true
		}
	}
	vAssert(hit, "returned fingerprint is the fingerprint of the input in some context")
	vObserveStr("fp", f)
	vCover("positive")
}

// HFpLen: every context's fingerprint has at most 5 classes; an evil token collapses it to exactly "X".
func HFpLen(n int, flagsIdx int) {
	s := vNondetString(n)
	st := new(sqliState)
	sqliInit(st, s, vFlagSets[flagsIdx])
	fp := st.sqliFingerprint(vFlagSets[flagsIdx])
	vAssert(len(fp) <= 5, "fingerprint never longer than 5")
	vAssert(st.fingerprint == fp, "state fingerprint equals the returned one")
	for i := 0; i < len(fp); i++ {
		vAssert(vFpCharOK(fp[i]), "fingerprint characters are token classes")
		if fp[i] == 'X' {
			vAssert(len(fp) == 1, "evil token collapses the fingerprint to X")
		}
	}
	vCover("checked")
}

// ---- T layer: long tokens around the 31/32-byte clipping boundary (C16, C01)

func vRun(set string, n int) string {
	out := make([]byte, 0, n)
	for i := 0; i < n; i++ {
		out = append(out, vByteIn(set))
	}
	return string(out)
}

// vLongToken builds one lexical construct with a body of L class-constrained free bytes.
func vLongToken(kind int, L int) string {
	switch kind {
	case 0: // bare word
		return vRun("acz_ACZ", L)
	case 1: // decimal number
		return vRun("0123456789", L)
	case 2: // quoted string
		q := vByteIn("'\"")
		return vB(q) + vRun("ac", L) + vB(q)
	case 3: // C comment
		return "/*" + vRun("ac", L) + "*/"
	case 4: // dash-dash comment
		return "-- " + vRun("ac", L)
	case 5: // variable
		return "@" + vRun("ac_", L)
	case 6: // bracket word
		return "[" + vRun("ac", L) + "]"
	case 7: // back-tick word
		return "`" + vRun("ac", L) + "`"
	case 8: // hex literal
		return "0x" + vRun("0a", L)
	case 9: // money
		return "$" + vRun("09", L)
	case 10: // x'..' hex string
		return "x'" + vRun("0a", L) + "'"
	case 11: // unterminated string
		return "'" + vRun("ac", L)
	case 12: // hash comment
		return "#" + vRun("ac", L)
	case 13: // q-string
		return "q'(" + vRun("ac", L) + ")'"
	case 14: // dollar string
		return "$$" + vRun("ac", L) + "$$"
	}
	return ""
}

const vNumLongKinds = 15

// HLongTok: pre free bytes + long token + post free bytes; whole-stream C16 assertions in mode flagsIdx, then IsSQLi.
func HLongTok(kind int, L int, pre int, post int, flagsIdx int) {
	s := vNondetString(pre) + vLongToken(kind, L) + vNondetString(post)
	n := len(s)
	st := new(sqliState)
	sqliInit(st, s, vFlagSets[flagsIdx])
	count := 0
	prevEnd := 0
	for {
		before := st.pos
		st.current = &st.tokenVec[0]
		if !st.tokenize() {
			break
		}
		count++
		t := st.current
		vTokenShape(s, n, t, before, st.pos)
		vAssert(t.pos >= prevEnd, "tokens strictly ordered and non-overlapping")
		prevEnd = t.pos + t.len
		vAssert(count <= n, "no more tokens than input bytes")
	}
	vAssert(st.pos == n, "scan ends exactly at end of input")
	b, f := IsSQLi(s)
	vAssert(b || f == "", "false verdict comes with the empty fingerprint")
	vAssert(len(f) <= 5, "fingerprint has at most 5 characters")
	vObserveInt("count", count)
	vObserveBool("verdict", b)
	vCover("end")
}
