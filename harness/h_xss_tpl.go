//go:build verif

package libinjection

// T layer for XSS (C04, C13, C15): vectors built from the baseline vocabulary (gen_vocab.go) with symbolic holes:
// case of every letter, separator byte, whitespace around '=', value byte, optional NUL inside the name.

// vName: the word w with free letter case and, if nul > 0, one NUL inserted after its nul-th byte.
func vName(w string, nul int) string {
	out := make([]byte, 0, len(w)+1)
	for i := 0; i < len(w); i++ {
		c := w[i]
		if (c >= 'a' && c <= 'z') || (c >= 'A' && c <= 'Z') {
			out = append(out, vLetter(c))
		} else {
			out = append(out, c)
		}
		if nul > 0 && i+1 == nul && i+1 < len(w) {
			out = append(out, 0)
		}
	}
	return string(out)
}

// vBreakout: the text that precedes a new tag / a new attribute in injection context ctx.
// forTag: the vector is an element (needs the enclosing tag to be closed first).
func vBreakout(ctx int, forTag bool) string {
	if forTag {
		return [...]string{"", "x>", "x'>", "x\">", "x`>"}[ctx]
	}
	return [...]string{"<a", "x", "x'", "x\"", "x`"}[ctx]
}

// vAttrSep: separator between the previous construct and an attribute name. shape 0: one HTML whitespace byte,
// 1: '/', 2: nothing (only valid directly after a closing quote: contexts 2..4), 3: two whitespace bytes,
// 4: ws / ws, 5: / ws, 6: ws b=c ws / ws (a '/' after an earlier attribute value), 7: ws b='c'/ ws, 8: //, 9: ws NUL.
func vAttrSep(shape int) string {
	switch shape {
	case 0:
		return vB(vH5WS())
	case 1:
		return "/"
	case 3:
		return vB(vH5WS()) + vB(vH5WS())
	case 4:
		return vB(vH5WS()) + "/" + vB(vH5WS())
	case 5:
		return "/" + vB(vH5WS())
	case 6:
		return vB(vH5WS()) + "b=c" + vB(vH5WS()) + "/" + vB(vH5WS())
	case 7:
		return vB(vH5WS()) + "b='c'/" + vB(vH5WS())
	case 8:
		return "//"
	case 9:
		return vB(vH5WS()) + "\x00"
	}
	return ""
}

// vEq: '=' with optional whitespace. shape bit0: whitespace before, bit1: whitespace after.
func vEq(shape int) string {
	s := ""
	if shape&1 != 0 {
		s += vB(vH5WS())
	}
	s += "="
	if shape&2 != 0 {
		s += vB(vH5WS())
	}
	return s
}

// vQuoted wraps v: 0 unquoted, 1 '..', 2 "..", 3 `..`
func vQuoted(v string, q int) string {
	switch q {
	case 1:
		return "'" + v + "'"
	case 2:
		return "\"" + v + "\""
	case 3:
		return "`" + v + "`"
	}
	return v
}

// HXssTagT (C04): black element idx in context ctx. end: 0 ">", 1 whitespace + "x>", 2 "/>", 3 end of input, 4 whitespace at end.
func HXssTagT(idx int, ctx int, end int, nul int) {
	name := vBaseTags[idx]
	v := vBreakout(ctx, true) + "<" + vName(name, nul)
	if name == "SVG" || name == "XSL" {
		v += vB(vByteIn("at:-1")) // anything SVG / XSL(T) related: the names are prefixes
	}
	switch end {
	case 0:
		v += ">"
	case 1:
		v += vB(vH5WS()) + "x>"
	case 2:
		v += "/>"
	case 4:
		v += vB(vH5WS())
	}
	vAssert(isXSS(v, ctx), "black element detected in its injection context")
	vAssert(IsXSS(v), "black element detected by IsXSS")
	vCover("checked")
}

// vAttrValue: a value that makes an attribute of type typ dangerous.
func vAttrValue(typ int) string {
	switch typ {
	case attributeTypeAttrURL:
		return vWord("javascript") + ":" + vB(vByteIn("ax1("))
	case attributeTypeAttrIndirect:
		return vWord("onload")
	}
	return vB(vByteIn("ax1("))
}

// HXssAttrT (C04): kind 0: on+event idx, 1: black attribute idx, 2: xmlns / xlink (idx 0/1).
func HXssAttrT(kind int, idx int, ctx int, sep int, eq int, q int, end int, nul int) {
	var name string
	typ := attributeTypeBlack
	switch kind {
	case 0:
		name = "on" + vBaseEvents[idx]
	case 1:
		name = vBaseBlacks[idx].name
		typ = vBaseBlacks[idx].typ
	case 2:
		name = [...]string{"xmlns", "xlink"}[idx]
	}
	v := vBreakout(ctx, false) + vAttrSep(sep) + vName(name, nul) + vEq(eq) + vQuoted(vAttrValue(typ), q)
	if end == 0 {
		v += ">"
	}
	vAssert(isXSS(v, ctx), "dangerous attribute detected in its injection context")
	vAssert(IsXSS(v), "dangerous attribute detected by IsXSS")
	vCover("checked")
}

// HXssMarkupT (C04): DOCTYPE / ENTITY / IE conditional comment / processing instructions / back-tick in comment.
func HXssMarkupT(which int, ctx int, tail int) {
	var m string
	switch which {
	case 0:
		m = "<!" + vWord("doctype")
	case 1:
		m = "<!" + vWord("entity")
	case 2:
		m = "<?" + vWord("import")
	case 3:
		m = "<!--[" + vWord("if") + vB(vByteIn(" ]a"))
	case 4:
		m = "<?" + vWord("xml") + vB(vByteIn(" :-a"))
	case 5:
		m = "<!--" + vB(vByteIn("ax 1")) + "`"
	case 6:
		m = "<%" + vB(vByteIn("ax 1")) + "`"
	case 7:
		m = "<!" + vWord("entity") // followed by free tail only
	}
	v := vBreakout(ctx, true) + m + vNondetString(tail)
	vAssert(isXSS(v, ctx), "dangerous markup detected in its injection context")
	vAssert(IsXSS(v), "dangerous markup detected by IsXSS")
	vCover("checked")
}

// HXssOrT (C13): on the same vectors, IsXSS equals the OR of the five context verdicts, and the context verdict
// equals the verdict of the embedded markup.
func HXssOrT(kind int, idx int, ctx int, sep int) {
	var name string
	switch kind {
	case 0:
		name = "on" + vBaseEvents[idx]
	case 1:
		name = vBaseBlacks[idx].name
	case 2:
		name = [...]string{"xmlns", "xlink"}[idx]
	}
	pre := vBreakout(ctx, false)
	if sep >= 100 {
		// the context's closing quote is the very first input byte (offset 0 is special-cased by the tokenizer and is
		// where "does the input contain a quote" shortcuts go wrong); for the unquoted context: no leading filler
		sep -= 100
		pre = pre[1:]
		if ctx == 0 {
			pre = "<a"
		}
	}
	v := pre + vAttrSep(sep) + vName(name, 0) + "=" + vB(vByteIn("ax1(")) + vNondetString(1)
	got := IsXSS(v)
	want := false
	for c := 0; c < 5; c++ {
		if isXSS(v, c) {
			want = true
		}
	}
	vAssert(got == want, "IsXSS equals the OR of the five context verdicts")
	for c := 1; c < 5; c++ {
		pre := [...]string{"", "<a ", "<a b='", "<a b=\"", "<a b=`"}[c]
		vAssert(isXSS(v, c) == isXSS(pre+v, html5FlagsDataState), "context verdict equals the verdict of the embedded markup")
	}
	vCover("checked")
}

// HXssNameNoEqT (C15): a dangerous attribute name (or element name) with free surrounding bytes but no '<' and no '=' is never XSS.
func HXssNameNoEqT(kind int, idx int, pre int, post int) {
	var name string
	switch kind {
	case 0:
		name = "on" + vBaseEvents[idx]
	case 1:
		name = vBaseBlacks[idx].name
	case 2:
		name = [...]string{"xmlns", "xlink", "script", "javascript:"}[idx]
	}
	a := vNondetString(pre)
	b := vNondetString(post)
	for i := 0; i < pre; i++ {
		vAssume(a[i] != '<')
		vAssume(a[i] != '=')
	}
	for i := 0; i < post; i++ {
		vAssume(b[i] != '<')
		vAssume(b[i] != '=')
	}
	v := a + vName(name, 0) + b
	vAssert(!IsXSS(v), "text without < and = is never XSS")
	vCover("checked")
}

// HXssEmbedT (C13): the embedding equation on attribute vectors that start with an unusual lead (a context's first
// byte decides which state function sees it first): verdict(s, ctx) = verdict(embed_ctx(s), data).
func HXssEmbedT(kind int, idx int, ctx int, lead int) {
	var name string
	switch kind {
	case 0:
		name = "on" + vBaseEvents[idx]
	case 1:
		name = vBaseBlacks[idx].name
	case 2:
		name = [...]string{"xmlns", "xlink"}[idx]
	}
	l := [...]string{"", "=", "/", ">", "'", "\"", "`", "= ", "a=b ", "=/", "='a'", "\x00", "//", "=>"}[lead]
	s := l + vName(name, 0) + "=" + vB(vByteIn("ax1(")) + vNondetString(1)
	pre := [...]string{"", "<a ", "<a b='", "<a b=\"", "<a b=`"}[ctx]
	vAssert(isXSS(s, ctx) == isXSS(pre+s, html5FlagsDataState), "context verdict equals the verdict of the embedded markup")
	vCover("checked")
}

const vNumLeads = 14
