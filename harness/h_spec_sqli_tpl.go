//go:build verif

package libinjection

// C06, T layer: attack and near-benign templates through implementation and reference.

// vSpecAll: on one input, the API result and every context's fold equal the reference.
func vSpecAll(s string) {
	b, f := IsSQLi(s)
	wb, wf := specIsSQLi(s)
	vAssert(b == wb, "IsSQLi verdict equals the reference")
	vAssert(f == wf, "IsSQLi fingerprint equals the reference")
	for i := 0; i < len(vFlagSets); i++ {
		flags := vFlagSets[i]
		st := new(sqliState)
		sqliInit(st, s, flags)
		fp := st.sqliFingerprint(flags)
		ok := st.checkFingerprint()
		wfp, wok, _, r := specContext(s, flags)
		vAssert(fp == wfp, "fingerprint equals the reference")
		vAssert(ok == wok, "context verdict equals the reference")
		vAssert(st.statsTokens == r.ntok, "token counter equals the reference")
		if fp != "X" {
			for k := 0; k < len(fp) && k < len(r.toks); k++ {
				vAssert(st.tokenVec[k].val == r.toks[k].val, "folded token value equals the reference")
			}
		}
	}
}

// HSpecSqlT (T): attack templates and near-benign templates through implementation and reference.
func HSpecSqlT(ctx int, atk int, sep int, tail int) {
	s := vExpand(vSqlCtx[ctx]+vSqlAttacks[atk]+vSqlTails[tail], sep)
	vSpecAll(s)
	vCover("checked")
}

func HSpecSqlNearT(i int, sep int) {
	s := vExpand(vSqlNear[i], sep)
	vSpecAll(s)
	vCover("checked")
}

// HSpecSqlSeq (C06): implementation vs reference on every token-class sequence with lo <= code <= hi.
func HSpecSqlSeq(k int, lo int, hi int) {
	code := vIntIn(lo, hi)
	s := vSeq(k, code)
	vSpecAll(s)
	vCover("checked")
}
