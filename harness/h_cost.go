//go:build verif

package libinjection

// C09: abstract cost (input bytes examined, DESIGN.md section 7 C09) is linear in the bytes consumed.

// HCostStrCore: worst-case cost of one string scan over all inputs of length n must stay under a*n+b.
func HCostStrCore(n int, a int, b int) {
	s := vNondetString(n)
	t := new(sqliToken)
	c0 := vCost()
	t.parseStringCore(s, n, 0, 0, '\'')
	vAssert(vCost()-c0 <= a*n+b, "string scan cost linear in the bytes consumed")
	vCover("checked")
}
