//go:build verif

package libinjection

// C09: abstract cost (input bytes examined, DESIGN.md section 7 C09) is linear in the bytes consumed.

// HCostStrCore: worst-case cost of one string scan over all inputs of length n must stay under a*n+b.
func HCostStrCore(n int, a int, b int) {
	s := vNondetString(n)
	t := new(sqliToken)
	c0 := vCost()
	t.parseStringCore(s, n, 0, 0, '\'')
	vAssert(vCost()-c0 <= a*n+b, "string scan cost linear in the bytes consumed")
	vCover("checked")
}

// ---- repetition families (C09, also C01/C02 on long repetitive inputs)

func vRepeat(u string, k int) string {
	s := ""
	for i := 0; i < k; i++ {
		s += u
	}
	return s
}

var vSqlUnits = [...]string{"''", "\\'", "$t$", "/*", "@", "`", "[", "a.", "a`", "--", "1,", "(", "1e", "x'", "q'(", "$$", "#", "\"\"", "a ", "1 ", ";", "{a ", "n'", "/*!", "1+", "or 1 ", "@@", "\\N", "u&'", "0x", "`a` ", "]'", "*/", "-", "<=>", "[aaaaaaaaaaaaaaaaaaaaaaaaaaaaaa,", "(aaaaaaaaaaaaaaaaaaaaaaaaaaaaaaaa,", "aaaaaaaaaaaaaaaaaaaaaaaaaaaaaaaa.", "'aaaaaaaaaaaaaaaaaaaaaaaaaaaaaaaa',", "and.1", "or`1`", "select.", "1or.", "in.(", "@a.b", "/**/", "/* a */ ", "1/**/+", "a/**/"}
var vXssUnits = [...]string{"<", "-", "%", "]", "&#", "/", "a=", "<!--x-->", "<%x%>", "</x>", "<x>", "<a b=c ", "' ", "\" ", "` ", "<!--", "<![CDATA[", "<?x>", "<!x>", "x=`", "--!", "]]", "%>", "<a href=&#x6a;", "<a/", "/ ", "<a b='c'", "\x00", "=\x00", "<!--[if", "<a style=", "&#x41", "<a href=java", "x", "&#120;", "x\x00", "<a href=\"xxxxxxxxxxxxxxxxxxxxxxxxxxxxxxxx\">", "</>", "a", "<!---->", "<a b>"}

const vNumSqlUnits = 49
const vNumXssUnits = 41

// HRepeatSqli: pre + (unit with `holes` free bytes appended)^k and ^2k. Cost linear: doubling the length at most doubles
// the cost (plus a constant), and the cost per byte stays under a generous constant.
func HRepeatSqli(unit int, holes int, k int, pre int, perByte int, slack int) {
	u := vSqlUnits[unit] + vNondetString(holes)
	p := [...]string{"", "'", "1 ", "\"", "", "", ""}[pre]
	q := [...]string{"", "", "", "", "]", "'", "*/"}[pre]
	s1 := p + vRepeat(u, k) + q
	s2 := p + vRepeat(u, 2*k) + q
	c0 := vCost()
	IsSQLi(s1)
	c1 := vCost() - c0
	IsSQLi(s2)
	c2 := vCost() - c0 - c1
	vObserveStr("pre", p)
	vObserveStr("unit", u)
	vObserveStr("post", q)
	vAssert(c1 <= perByte*len(s1)+slack, "IsSQLi cost per byte under the constant")
	vAssert(c2 <= 2*c1+c1/4+slack, "doubling the input at most doubles the cost of IsSQLi")
	vObserveStr("input", s1)
	vObserveInt("len1", len(s1))
	vCover("checked")
}

func HRepeatXss(unit int, holes int, k int, pre int, perByte int, slack int) {
	u := vXssUnits[unit] + vNondetString(holes)
	p := [...]string{"", "<a ", "x' ", "<!--", "<a href=\"", "<a href=", "<a src='", "<!--", "<%", "<![CDATA[", "<!--"}[pre]
	q := [...]string{"", "", "", "", "", "", "", "-ab", "%x", "]x", "-\x00a>"}[pre]
	s1 := p + vRepeat(u, k) + q
	s2 := p + vRepeat(u, 2*k) + q
	vObserveStr("post", q)
	c0 := vCost()
	vResetDepth()
	IsXSS(s1)
	c1 := vCost() - c0
	d1 := vDepth()
	vResetDepth()
	IsXSS(s2)
	c2 := vCost() - c0 - c1
	d2 := vDepth()
	vObserveStr("pre", p)
	vObserveStr("unit", u)
	vAssert(c1 <= perByte*len(s1)+slack, "IsXSS cost per byte under the constant")
	vAssert(c2 <= 2*c1+c1/4+slack, "doubling the input at most doubles the cost of IsXSS")
	vAssert(d2 <= d1, "call depth does not grow with the input length")
	vObserveStr("input", s1)
	vObserveInt("len1", len(s1))
	vCover("checked")
}

// HRepeatFree: the unit itself is free (n bytes): the solver searches all units for a super-linear one.
func HRepeatFree(n int, k int, which int, perByte int, slack int) {
	u := vNondetString(n)
	s1 := vRepeat(u, k)
	s2 := vRepeat(u, 2*k)
	c0 := vCost()
	if which == 0 {
		IsSQLi(s1)
	} else {
		isXSS(s1, which-1)
	}
	c1 := vCost() - c0
	if which == 0 {
		IsSQLi(s2)
	} else {
		isXSS(s2, which-1)
	}
	c2 := vCost() - c0 - c1
	vObserveStr("pre", "")
	vObserveStr("unit", u)
	vAssert(c1 <= perByte*len(s1)+slack, "cost per byte under the constant")
	vAssert(c2 <= 2*c1+c1/4+slack, "doubling the input at most doubles the cost")
	vObserveStr("input", s1)
	vCover("checked")
}

// HCostLex: one scan step costs at most a*consumed + b (b covers the bounded keyword look-ups: <= 31 prefixes of <= 31 bytes).
func HCostLex(n int, flagsIdx int, a int, b int) {
	s := vNondetString(n)
	st := new(sqliState)
	sqliInit(st, s, vFlagSets[flagsIdx])
	c0 := vCost()
	before := st.pos
	st.tokenize()
	vAssert(vCost()-c0 <= a*(st.pos-before)+b, "scan step cost linear in the bytes consumed")
	vCover("checked")
}

// HCostState: one tokenizer run from an arbitrary state costs at most a*n + b.
func HCostState(n int, which int, a int, b int) {
	s := vNondetString(n)
	p := 1
	if n == 0 {
		p = 0
	}
	h := &h5State{s: s, len: n, pos: p, isClose: vNondetBool()}
	vSetState(h, which)
	vEntryInvariant(which, s, n, p)
	c0 := vCost()
	for h.next() {
	}
	vAssert(vCost()-c0 <= a*n+b, "tokenizer cost linear in the input length")
	vCover("checked")
}

// HCostDecode: the URL matcher decodes each byte a bounded number of times.
func HCostURL(n int, a int, b int) {
	s := vNondetString(n)
	c0 := vCost()
	isBlackURL(s)
	vAssert(vCost()-c0 <= a*n+b, "URL classification cost linear in the value length")
	vCover("checked")
}
