//go:build verif

package libinjection

// XSS API-level harnesses: C13 (contexts), C15 (no '<' and no '='), C11 (case / NUL insensitivity).

// HXssOr: IsXSS(s) is the disjunction of the five context verdicts.
func HXssOr(n int) {
	s := vNondetString(n)
	got := IsXSS(s)
	want := false
	for ctx := 0; ctx < 5; ctx++ {
		if isXSS(s, ctx) {
			want = true
		}
	}
	vAssert(got == want, "IsXSS equals the OR of the five context verdicts")
	vObserveBool("verdict", got)
	vCover("checked")
}

// HXssEmbed: analysing s in an attribute context equals analysing, as ordinary markup, s placed at that position of a harmless tag.
func HXssEmbed(n int, ctx int) {
	s := vNondetString(n)
	pre := [...]string{"", "<a ", "<a b='", "<a b=\"", "<a b=`"}[ctx]
	v1 := isXSS(s, ctx)
	v2 := isXSS(pre+s, html5FlagsDataState)
	vAssert(v1 == v2, "context verdict equals the verdict of the embedded markup")
	vObserveBool("verdict", v1)
	vCover("checked")
}

// HXssPrefix: prepending text without '<' never changes the element-content verdict.
func HXssPrefix(n int, k int) {
	t := vNondetString(k)
	for i := 0; i < k; i++ {
		vAssume(t[i] != '<')
	}
	s := vNondetString(n)
	v1 := isXSS(s, html5FlagsDataState)
	v2 := isXSS(t+s, html5FlagsDataState)
	vAssert(v1 == v2, "prepended text without < does not change the verdict")
	vObserveBool("verdict", v1)
	vCover("checked")
}

// HXssNoLtEq: an input without '<' and without '=' is never XSS.
func HXssNoLtEq(n int) {
	s := vNondetString(n)
	for i := 0; i < n; i++ {
		vAssume(s[i] != '<')
		vAssume(s[i] != '=')
	}
	vAssert(!IsXSS(s), "text without < and = is never XSS")
	vCover("checked")
}

// HXssNoLtEqCtx: same per context (smaller runs, deeper bound).
func HXssNoLtEqCtx(n int, ctx int) {
	s := vNondetString(n)
	for i := 0; i < n; i++ {
		vAssume(s[i] != '<')
		vAssume(s[i] != '=')
	}
	vAssert(!isXSS(s, ctx), "text without < and = is never XSS in this context")
	vCover("checked")
}

// vFlip returns s with the case of the ASCII letters selected by free mask bits flipped.
func vFlip(s string, n int) string {
	out := make([]byte, 0, n)
	for i := 0; i < n; i++ {
		b := s[i]
		m := vNondetBool()
		if m && vUpperASCII(s[i:i+1]) != vLowerASCII(s[i:i+1]) {
			b ^= 0x20
		}
		out = append(out, b)
	}
	return string(out)
}

// HXssCase: changing the case of ASCII letters never changes the IsXSS verdict (inputs with a case variant of
// "[CDATA[" are exempt; they need >= 7 bytes).
func HXssCase(n int) {
	s := vNondetString(n)
	for i := 0; i+7 <= n; i++ {
		vAssume(vUpperASCII(s[i:i+7]) != "[CDATA[")
	}
	t := vFlip(s, n)
	v1 := IsXSS(s)
	v2 := IsXSS(t)
	vAssert(v1 == v2, "IsXSS verdict invariant under ASCII case changes")
	vCover("checked")
}

func HXssCaseCtx(n int, ctx int) {
	s := vNondetString(n)
	for i := 0; i+7 <= n; i++ {
		vAssume(vUpperASCII(s[i:i+7]) != "[CDATA[")
	}
	t := vFlip(s, n)
	v1 := isXSS(s, ctx)
	v2 := isXSS(t, ctx)
	vAssert(v1 == v2, "context verdict invariant under ASCII case changes")
	vCover("checked")
}

// HXssNul: inserting a NUL strictly inside a tag-name or attribute-name token of (s, ctx) never changes that context's verdict.
func HXssNul(n int, ctx int, k int) {
	s := vNondetString(n)
	// find whether offset k lies strictly inside a name token of (s, ctx)
	h := new(h5State)
	h.init(s, ctx)
	inside := false
	for h.next() {
		if h.tokenType == html5TypeTagNameOpen || h.tokenType == html5TypeAttrName || h.tokenType == html5TypeTagClose {
			off := n - len(h.tokenStart)
			if off < k && k < off+h.tokenLen {
				inside = true
			}
		}
	}
	vAssume(inside)
	t := s[:k] + "\x00" + s[k:]
	v1 := isXSS(s, ctx)
	v2 := isXSS(t, ctx)
	vAssert(v1 == v2, "NUL inside a name does not change the context verdict")
	vCover("checked")
}

// HBlackNul / HBlackCase: the name classifiers themselves, on free names.
func HBlackTagNul(n int, k int) {
	s := vNondetString(n)
	t := s[:k] + "\x00" + s[k:]
	vAssume(n >= 3) // the raw-length guard of isBlackTag is about names shorter than the shortest black tag
	vAssert(isBlackTag(s) == isBlackTag(t), "NUL inside a tag name does not change its classification")
	vCover("checked")
}

func HBlackAttrNul(n int, k int) {
	s := vNondetString(n)
	t := s[:k] + "\x00" + s[k:]
	vAssert(isBlackAttr(s) == isBlackAttr(t), "NUL inside an attribute name does not change its classification")
	vCover("checked")
}

func HBlackCase(n int, which int) {
	s := vNondetString(n)
	t := vFlip(s, n)
	if which == 0 {
		vAssert(isBlackTag(s) == isBlackTag(t), "tag classification is case-insensitive")
	} else if which == 1 {
		vAssert(isBlackAttr(s) == isBlackAttr(t), "attribute classification is case-insensitive")
	} else {
		vAssert(isBlackURL(s) == isBlackURL(t), "URL classification is case-insensitive")
	}
	vCover("checked")
}
