package main

import (
	"fmt"
	"go/types"

	"golang.org/x/tools/go/ssa"
)

type Val interface{}

type StrV struct{ b []*Term }

type Obj struct {
	v   Val    // scalar payload
	sub []*Obj // struct fields / array elems
	agg int    // 0 scalar, 1 struct, 2 array
	ro  bool   // belongs to a package-level table (diagnostics)
	glb string // name of global root, if any
}

type PtrV struct{ o *Obj }

type SliceV struct {
	arr           []*Obj
	off, len, cap int
}

type StructV struct{ f []Val }
type ArrayV struct{ e []Val }
type FuncV struct {
	fn  *ssa.Function
	env []Val
}
type MapV struct {
	m      map[string]Val
	byLen  map[int][]string
	shared bool
}
type TupleV []Val

// IterV: state of a range loop over a map (keys in sorted order) or a concrete string.
type IterV struct {
	m     *MapV
	keys  []string
	str   string
	isStr bool
	pos   int
}
type BuilderV struct{ b []*Term }

// SymElem: address of element of a slice/array at a symbolic index
type SymElem struct {
	elems []*Obj
	idx   *Term
}

func bw(t types.Type) (w int, signed bool, ok bool) {
	b, isB := t.Underlying().(*types.Basic)
	if !isB {
		return 0, false, false
	}
	switch b.Kind() {
	case types.Bool, types.UntypedBool:
		return 0, false, true
	case types.Int, types.Int64, types.UntypedInt:
		return 64, true, true
	case types.Uint, types.Uint64, types.Uintptr:
		return 64, false, true
	case types.Int32, types.UntypedRune:
		return 32, true, true
	case types.Uint32:
		return 32, false, true
	case types.Int16:
		return 16, true, true
	case types.Uint16:
		return 16, false, true
	case types.Int8:
		return 8, true, true
	case types.Uint8:
		return 8, false, true
	}
	return 0, false, false
}

func isString(t types.Type) bool {
	b, ok := t.Underlying().(*types.Basic)
	return ok && (b.Kind() == types.String || b.Kind() == types.UntypedString)
}

func isBuilder(t types.Type) bool {
	n, ok := t.(*types.Named)
	return ok && n.Obj().Pkg() != nil && n.Obj().Pkg().Path() == "strings" && n.Obj().Name() == "Builder"
}

func zero(t types.Type) Val {
	if isBuilder(t) {
		return &BuilderV{}
	}
	switch u := t.Underlying().(type) {
	case *types.Basic:
		if isString(t) {
			return &StrV{}
		}
		w, _, ok := bw(t)
		if !ok {
			return nil // unsafe.Pointer, floats, complex: not modelled; only ever stored, never computed with
		}
		if w == 0 {
			return tFalse
		}
		return BVC(w, 0)
	case *types.Pointer:
		return &PtrV{}
	case *types.Slice:
		return &SliceV{}
	case *types.Signature:
		return &FuncV{}
	case *types.Map:
		return (*MapV)(nil)
	case *types.Interface:
		return nil
	case *types.Struct:
		s := &StructV{}
		for i := 0; i < u.NumFields(); i++ {
			s.f = append(s.f, zero(u.Field(i).Type()))
		}
		return s
	case *types.Array:
		a := &ArrayV{}
		for i := int64(0); i < u.Len(); i++ {
			a.e = append(a.e, zero(u.Elem()))
		}
		return a
	}
	panic("zero: " + t.String())
}

func newObj(t types.Type) *Obj {
	if isBuilder(t) {
		return &Obj{v: &BuilderV{}}
	}
	switch u := t.Underlying().(type) {
	case *types.Struct:
		o := &Obj{agg: 1}
		for i := 0; i < u.NumFields(); i++ {
			o.sub = append(o.sub, newObj(u.Field(i).Type()))
		}
		return o
	case *types.Array:
		o := &Obj{agg: 2}
		for i := int64(0); i < u.Len(); i++ {
			o.sub = append(o.sub, newObj(u.Elem()))
		}
		return o
	}
	return &Obj{v: zero(t)}
}

func load(o *Obj) Val {
	switch o.agg {
	case 1:
		s := &StructV{f: make([]Val, len(o.sub))}
		for i, c := range o.sub {
			s.f[i] = load(c)
		}
		return s
	case 2:
		a := &ArrayV{e: make([]Val, len(o.sub))}
		for i, c := range o.sub {
			a.e[i] = load(c)
		}
		return a
	}
	if b, ok := o.v.(*BuilderV); ok {
		return &BuilderV{b: append([]*Term(nil), b.b...)}
	}
	return o.v
}

func store(o *Obj, v Val) {
	switch o.agg {
	case 1:
		s := v.(*StructV)
		for i, c := range o.sub {
			store(c, s.f[i])
		}
		return
	case 2:
		a := v.(*ArrayV)
		for i, c := range o.sub {
			store(c, a.e[i])
		}
		return
	}
	o.v = v
}

func (s *StrV) concrete() (string, bool) {
	b := make([]byte, len(s.b))
	for i, t := range s.b {
		if !t.IsConst() {
			return "", false
		}
		b[i] = byte(t.c)
	}
	return string(b), true
}

func strOf(s string) *StrV {
	v := &StrV{b: make([]*Term, len(s))}
	for i := 0; i < len(s); i++ {
		v.b[i] = BVC(8, uint64(s[i]))
	}
	return v
}

func describe(v Val) string {
	switch x := v.(type) {
	case *Term:
		return x.String()
	case *StrV:
		if s, ok := x.concrete(); ok {
			return fmt.Sprintf("%q", s)
		}
		return fmt.Sprintf("str[%d]", len(x.b))
	}
	return fmt.Sprintf("%T", v)
}
