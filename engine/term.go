package main

import (
	"fmt"
	"strconv"
	"strings"
)

// Term is an SMT-LIB term (bit-vector or Bool). Width 0 = Bool.
// Terms are hash-consed per job: structurally equal terms are pointer-equal, which makes the
// per-term caches (byte-domain sets, rendered text) effective across re-executed path prefixes.
type Term struct {
	op   string
	args []*Term
	w    int    // bit width; 0 for Bool
	c    uint64 // constant value when op=="const"
	name string // for vars
	str  string // cached rendering
	id   int
	// free-variable summary: nv = 0 (none), 1 (exactly one: v1), 2 (more than one)
	nv int8
	v1 *Term
	// byte-domain cache (valid when nv==1 && v1.w==8 && w==0)
	setOK bool
	set   bitset
}

type tkey struct {
	op      string
	a, b, c *Term
	w       int
	cv      uint64
	name    string
}

var (
	pool     = map[tkey]*Term{}
	poolN    = map[string]*Term{} // n-ary (and/or with > 3 args)
	nextID   = 1
	tTrue    = &Term{op: "true", str: "true", id: -1}
	tFalse   = &Term{op: "false", str: "false", id: -2}
	poolSize = 0
)

func resetPool() {
	pool = map[tkey]*Term{}
	poolN = map[string]*Term{}
	nextID = 1
	poolSize = 0
}

func intern(op string, args []*Term, w int, cv uint64, name string) *Term {
	var k tkey
	var ks string
	small := len(args) <= 3
	if small {
		k = tkey{op: op, w: w, cv: cv, name: name}
		if len(args) > 0 {
			k.a = args[0]
		}
		if len(args) > 1 {
			k.b = args[1]
		}
		if len(args) > 2 {
			k.c = args[2]
		}
		if t, ok := pool[k]; ok {
			return t
		}
	} else {
		var sb strings.Builder
		sb.WriteString(op)
		for _, a := range args {
			sb.WriteByte(' ')
			sb.WriteString(strconv.Itoa(a.id))
		}
		ks = sb.String()
		if t, ok := poolN[ks]; ok {
			return t
		}
	}
	t := &Term{op: op, args: args, w: w, c: cv, name: name, id: nextID}
	nextID++
	poolSize++
	if op == "var" {
		t.nv, t.v1 = 1, t
	} else {
		for _, a := range args {
			switch {
			case a.nv == 0:
			case a.nv == 2:
				t.nv = 2
			case t.nv == 0:
				t.nv, t.v1 = 1, a.v1
			case t.nv == 1 && t.v1 != a.v1:
				t.nv = 2
			}
		}
		if t.nv == 2 {
			t.v1 = nil
		}
	}
	if small {
		pool[k] = t
	} else {
		poolN[ks] = t
	}
	return t
}

func mask(w int) uint64 {
	if w >= 64 {
		return ^uint64(0)
	}
	return (uint64(1) << uint(w)) - 1
}

func BVC(w int, c uint64) *Term { return intern("const", nil, w, c&mask(w), "") }
func BoolC(b bool) *Term {
	if b {
		return tTrue
	}
	return tFalse
}

func Var(name string, w int) *Term { return intern("var", nil, w, 0, name) }

func (t *Term) IsConst() bool { return t.op == "const" || t.op == "true" || t.op == "false" }
func (t *Term) BoolVal() bool { return t.op == "true" }

func (t *Term) String() string {
	if t.str != "" {
		return t.str
	}
	var s string
	switch t.op {
	case "const":
		if t.w%4 == 0 {
			s = fmt.Sprintf("#x%0*x", t.w/4, t.c)
		} else {
			s = fmt.Sprintf("(_ bv%d %d)", t.c, t.w)
		}
	case "true", "false":
		s = t.op
	case "var":
		s = t.name
	default:
		var sb strings.Builder
		sb.WriteByte('(')
		sb.WriteString(t.op)
		for _, a := range t.args {
			sb.WriteByte(' ')
			sb.WriteString(a.String())
		}
		sb.WriteByte(')')
		s = sb.String()
	}
	t.str = s
	return s
}

func sext(c uint64, w int) int64 {
	if w >= 64 {
		return int64(c)
	}
	if c&(1<<uint(w-1)) != 0 {
		return int64(c | ^mask(w))
	}
	return int64(c)
}

func BVBin(op string, a, b *Term) *Term {
	if a.w != b.w {
		panic(fmt.Sprintf("width mismatch %s %d %d", op, a.w, b.w))
	}
	w := a.w
	if a.IsConst() && b.IsConst() {
		x, y := a.c, b.c
		var r uint64
		switch op {
		case "bvadd":
			r = x + y
		case "bvsub":
			r = x - y
		case "bvmul":
			r = x * y
		case "bvand":
			r = x & y
		case "bvor":
			r = x | y
		case "bvxor":
			r = x ^ y
		case "bvshl":
			if y >= uint64(w) {
				r = 0
			} else {
				r = x << y
			}
		case "bvlshr":
			if y >= uint64(w) {
				r = 0
			} else {
				r = x >> y
			}
		case "bvashr":
			sh := y
			if sh >= uint64(w) {
				sh = uint64(w - 1)
			}
			r = uint64(sext(x, w) >> sh)
		case "bvsrem":
			if y == 0 {
				goto sym
			}
			r = uint64(sext(x, w) % sext(y, w))
		case "bvsdiv":
			if y == 0 {
				goto sym
			}
			r = uint64(sext(x, w) / sext(y, w))
		case "bvurem":
			if y == 0 {
				goto sym
			}
			r = x % y
		case "bvudiv":
			if y == 0 {
				goto sym
			}
			r = x / y
		default:
			goto sym
		}
		return BVC(w, r)
	}
	// light simplification
	if op == "bvadd" && b.IsConst() && b.c == 0 {
		return a
	}
	if op == "bvadd" && a.IsConst() && a.c == 0 {
		return b
	}
	if op == "bvsub" && b.IsConst() && b.c == 0 {
		return a
	}
	if (op == "bvxor" || op == "bvor") && b.IsConst() && b.c == 0 {
		return a
	}
sym:
	return intern(op, []*Term{a, b}, w, 0, "")
}

func Cmp(op string, a, b *Term) *Term {
	if a.w != b.w {
		panic(fmt.Sprintf("cmp width mismatch %s %d %d", op, a.w, b.w))
	}
	if a.IsConst() && b.IsConst() {
		x, y := a.c, b.c
		w := a.w
		var r bool
		switch op {
		case "=":
			r = x == y
		case "bvult":
			r = x < y
		case "bvule":
			r = x <= y
		case "bvugt":
			r = x > y
		case "bvuge":
			r = x >= y
		case "bvslt":
			r = sext(x, w) < sext(y, w)
		case "bvsle":
			r = sext(x, w) <= sext(y, w)
		case "bvsgt":
			r = sext(x, w) > sext(y, w)
		case "bvsge":
			r = sext(x, w) >= sext(y, w)
		}
		return BoolC(r)
	}
	if a == b {
		switch op {
		case "=", "bvule", "bvuge", "bvsle", "bvsge":
			return tTrue
		default:
			return tFalse
		}
	}
	if op == "=" && a.id > b.id {
		a, b = b, a
	}
	return intern(op, []*Term{a, b}, 0, 0, "")
}

func Not(a *Term) *Term {
	if a.IsConst() {
		return BoolC(!a.BoolVal())
	}
	if a.op == "not" {
		return a.args[0]
	}
	return intern("not", []*Term{a}, 0, 0, "")
}

func And(ts ...*Term) *Term {
	var out []*Term
	for _, t := range ts {
		if t.IsConst() {
			if !t.BoolVal() {
				return tFalse
			}
			continue
		}
		dup := false
		for _, o := range out {
			if o == t {
				dup = true
				break
			}
		}
		if !dup {
			out = append(out, t)
		}
	}
	if len(out) == 0 {
		return tTrue
	}
	if len(out) == 1 {
		return out[0]
	}
	return intern("and", out, 0, 0, "")
}

func Or(ts ...*Term) *Term {
	var out []*Term
	for _, t := range ts {
		if t.IsConst() {
			if t.BoolVal() {
				return tTrue
			}
			continue
		}
		dup := false
		for _, o := range out {
			if o == t {
				dup = true
				break
			}
		}
		if !dup {
			out = append(out, t)
		}
	}
	if len(out) == 0 {
		return tFalse
	}
	if len(out) == 1 {
		return out[0]
	}
	return intern("or", out, 0, 0, "")
}

func Ite(c, a, b *Term) *Term {
	if c.IsConst() {
		if c.BoolVal() {
			return a
		}
		return b
	}
	if a == b {
		return a
	}
	if a.w == 0 {
		// Boolean ite
		return Or(And(c, a), And(Not(c), b))
	}
	return intern("ite", []*Term{c, a, b}, a.w, 0, "")
}

func ZExt(a *Term, w int) *Term {
	if a.w == w {
		return a
	}
	if a.w > w {
		return Extract(a, w)
	}
	if a.IsConst() {
		return BVC(w, a.c)
	}
	return intern("(_ zero_extend "+strconv.Itoa(w-a.w)+")", []*Term{a}, w, 0, "")
}

func SExt(a *Term, w int) *Term {
	if a.w == w {
		return a
	}
	if a.w > w {
		return Extract(a, w)
	}
	if a.IsConst() {
		return BVC(w, uint64(sext(a.c, a.w)))
	}
	return intern("(_ sign_extend "+strconv.Itoa(w-a.w)+")", []*Term{a}, w, 0, "")
}

func Extract(a *Term, w int) *Term {
	if a.w == w {
		return a
	}
	if a.IsConst() {
		return BVC(w, a.c)
	}
	// extract of zero_extend of something narrow enough: drop
	if strings.HasPrefix(a.op, "(_ zero_extend") && a.args[0].w <= w {
		return ZExt(a.args[0], w)
	}
	return intern("(_ extract "+strconv.Itoa(w-1)+" 0)", []*Term{a}, w, 0, "")
}
