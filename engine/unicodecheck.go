package main

import (
	"fmt"
	"unicode"
	"unicode/utf8"
)

// checkUnicodeFacts recomputes, from the toolchain's own unicode tables, the facts the blob model of
// strings.ToUpper/ToLower relies on (DESIGN.md 3.5): the only non-ASCII runes with an ASCII case image are
// U+0131, U+017F (upper) and U+0130, U+212A (lower); the image of a rune never needs more than 3 bytes per
// input byte. A change in a future toolchain makes every job fail loudly instead of silently weakening claims.
func checkUnicodeFacts() error {
	wantU := map[rune]rune{0x131: 'I', 0x17F: 'S'}
	wantL := map[rune]rune{0x130: 'i', 0x212A: 'k'}
	for r := rune(0x80); r <= unicode.MaxRune; r++ {
		if r >= 0xD800 && r <= 0xDFFF {
			continue
		}
		u, l := unicode.ToUpper(r), unicode.ToLower(r)
		if u < 0x80 && wantU[r] != u {
			return fmt.Errorf("unicode.ToUpper(%U) = %U: unexpected ASCII image", r, u)
		}
		if l < 0x80 && wantL[r] != l {
			return fmt.Errorf("unicode.ToLower(%U) = %U: unexpected ASCII image", r, l)
		}
		n := utf8.RuneLen(r)
		if utf8.RuneLen(u) > 3*n || utf8.RuneLen(l) > 3*n {
			return fmt.Errorf("case image of %U longer than 3x", r)
		}
	}
	for r, w := range wantU {
		if unicode.ToUpper(r) != w {
			return fmt.Errorf("unicode.ToUpper(%U) != %q", r, w)
		}
	}
	for r, w := range wantL {
		if unicode.ToLower(r) != w {
			return fmt.Errorf("unicode.ToLower(%U) != %q", r, w)
		}
	}
	return nil
}
