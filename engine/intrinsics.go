package main

import (
	"fmt"
	"go/types"
	"sort"
	"strconv"
	"strings"

	"golang.org/x/tools/go/ssa"
)

func (ex *Exec) firstMatchFork(n int, matchAt func(i int) *Term) int {
	// returns first i in [0,n) with matchAt(i), or -1. Forks when symbolic.
	conds := make([]*Term, n)
	allConst := true
	for i := 0; i < n; i++ {
		conds[i] = matchAt(i)
		if !conds[i].IsConst() {
			allConst = false
		}
	}
	if allConst {
		for i := 0; i < n; i++ {
			if conds[i].BoolVal() {
				return i
			}
		}
		return -1
	}
	// leading constant-false prefix can be skipped; stop at first constant-true
	c, _ := ex.forkE(func() ([]*Term, []uint64) {
		var alts []*Term
		var negs []*Term
		for i := 0; i < n; i++ {
			alts = append(alts, And(append(append([]*Term(nil), negs...), conds[i])...))
			if conds[i].IsConst() && conds[i].BoolVal() {
				// nothing after i can be first
				for j := i + 1; j <= n; j++ {
					alts = append(alts, tFalse)
				}
				return alts, nil
			}
			negs = append(negs, Not(conds[i]))
		}
		alts = append(alts, And(negs...))
		return alts, nil
	}, true)
	if c == n {
		return -1
	}
	return c
}

func (ex *Exec) indexByte(s *StrV, c *Term) int {
	r := ex.firstMatchFork(len(s.b), func(i int) *Term { return Cmp("=", s.b[i], c) })
	if r < 0 {
		ex.cost += len(s.b)
	} else {
		ex.cost += r + 1
	}
	return r
}

func (ex *Exec) indexStr(s, sub *StrV) int {
	if len(sub.b) == 0 {
		return 0
	}
	n := len(s.b) - len(sub.b) + 1
	if n <= 0 {
		return -1
	}
	r := ex.firstMatchFork(n, func(i int) *Term {
		var cs []*Term
		for j := range sub.b {
			cs = append(cs, Cmp("=", s.b[i+j], sub.b[j]))
		}
		return And(cs...)
	})
	if r < 0 {
		ex.cost += len(s.b)
	} else {
		ex.cost += r + len(sub.b)
	}
	return r
}

func (ex *Exec) containsTerm(s, sub *StrV) *Term {
	if len(sub.b) == 0 {
		return tTrue
	}
	ex.cost += len(s.b)
	var ors []*Term
	for i := 0; i+len(sub.b) <= len(s.b); i++ {
		var cs []*Term
		for j := range sub.b {
			cs = append(cs, Cmp("=", s.b[i+j], sub.b[j]))
		}
		ors = append(ors, And(cs...))
	}
	return Or(ors...)
}

func (ex *Exec) caseMap(s *StrV, upper bool) *StrV {
	ex.cost += len(s.b)
	var kb strings.Builder
	if upper {
		kb.WriteByte('U')
	} else {
		kb.WriteByte('L')
	}
	for _, b := range s.b {
		kb.WriteString(strconv.Itoa(b.id))
		kb.WriteByte(',')
	}
	key := kb.String()
	if r, ok := ex.toUpperMemo[key]; ok {
		return r
	}
	r := ex.caseMap1(s, upper)
	ex.toUpperMemo[key] = r
	return r
}

func (ex *Exec) caseMap1(s *StrV, upper bool) *StrV {
	hi := make([]bool, len(s.b))
	any := false
	for i, b := range s.b {
		hi[i] = ex.branch(Cmp("bvuge", b, BVC(8, 0x80)))
		any = any || hi[i]
	}
	mapB := func(b *Term) *Term {
		if upper {
			return Ite(And(Cmp("bvuge", b, BVC(8, 'a')), Cmp("bvule", b, BVC(8, 'z'))), BVBin("bvsub", b, BVC(8, 0x20)), b)
		}
		return Ite(And(Cmp("bvuge", b, BVC(8, 'A')), Cmp("bvule", b, BVC(8, 'Z'))), BVBin("bvadd", b, BVC(8, 0x20)), b)
	}
	if !any {
		r := &StrV{}
		for _, b := range s.b {
			r.b = append(r.b, mapB(b))
		}
		return r
	}
	if !ex.safety {
		ex.end("excluded", "non-ASCII text reaches Unicode case mapping")
	}
	// the four letters whose case image is ASCII
	var sp []*Term
	eq := func(i int, v uint64) *Term { return Cmp("=", s.b[i], BVC(8, v)) }
	for i := 0; i+1 < len(s.b); i++ {
		if upper {
			sp = append(sp, And(eq(i, 0xC4), eq(i+1, 0xB1)), And(eq(i, 0xC5), eq(i+1, 0xBF)))
		} else {
			sp = append(sp, And(eq(i, 0xC4), eq(i+1, 0xB0)))
			if i+2 < len(s.b) {
				sp = append(sp, And(eq(i, 0xE2), eq(i+1, 0x84), eq(i+2, 0xAA)))
			}
		}
	}
	// Inputs containing one of those byte sequences get a wider blob: length 1..3k, bytes >= 0x80 or one of the ASCII images.
	special := ex.branch(Or(sp...))
	ex.pathExcl = true
	r := &StrV{}
	for i := 0; i < len(s.b); {
		if !hi[i] {
			r.b = append(r.b, mapB(s.b[i]))
			i++
			continue
		}
		j := i
		for j < len(s.b) && hi[j] {
			j++
		}
		k := j - i
		lo, hiL := 2, 3*k
		if k == 1 {
			lo, hiL = 3, 3
		} else if special {
			lo = 1
		}
		l := lo
		if hiL > lo {
			c, _ := ex.fork(func() ([]*Term, []uint64) {
				alts := make([]*Term, hiL-lo+1)
				for q := range alts {
					alts[q] = tTrue
				}
				return alts, nil
			})
			l = lo + c
		}
		for q := 0; q < l; q++ {
			v := ex.fresh("blob", 8)
			if special && k > 1 {
				if upper {
					ex.assume(Or(Cmp("bvuge", v, BVC(8, 0x80)), Cmp("=", v, BVC(8, 'I')), Cmp("=", v, BVC(8, 'S'))))
				} else {
					ex.assume(Or(Cmp("bvuge", v, BVC(8, 0x80)), Cmp("=", v, BVC(8, 'i')), Cmp("=", v, BVC(8, 'k'))))
				}
			} else {
				ex.assume(Cmp("bvuge", v, BVC(8, 0x80)))
			}
			r.b = append(r.b, v)
		}
		i = j
	}
	return r
}

func (ex *Exec) intrinsic(fn *ssa.Function, args []Val) Val {
	name := fn.String()
	switch name {
	case "strings.IndexByte", "bytes.IndexByte":
		var s *StrV
		switch a := args[0].(type) {
		case *StrV:
			s = a
		case *SliceV:
			s = &StrV{}
			for i := 0; i < a.len; i++ {
				s.b = append(s.b, load(a.arr[a.off+i]).(*Term))
			}
		}
		needle := args[1].(*Term)
		if _, conc := s.concrete(); conc && !needle.IsConst() {
			// concrete haystack, symbolic needle: the position is data, not control
			res := BVC(64, ^uint64(0))
			for i := len(s.b) - 1; i >= 0; i-- {
				res = Ite(Cmp("=", needle, s.b[i]), BVC(64, uint64(i)), res)
			}
			ex.cost += len(s.b)
			return res
		}
		return BVC(64, uint64(int64(ex.indexByte(s, needle))))
	case "strings.Index":
		return BVC(64, uint64(int64(ex.indexStr(args[0].(*StrV), args[1].(*StrV)))))
	case "strings.HasPrefix", "strings.HasSuffix":
		str, pre := args[0].(*StrV), args[1].(*StrV)
		if len(pre.b) > len(str.b) {
			return tFalse
		}
		ex.cost += len(pre.b)
		off := 0
		if name == "strings.HasSuffix" {
			off = len(str.b) - len(pre.b)
		}
		var cs []*Term
		for i := range pre.b {
			cs = append(cs, Cmp("=", str.b[off+i], pre.b[i]))
		}
		return And(cs...)
	case "strings.Contains":
		return ex.containsTerm(args[0].(*StrV), args[1].(*StrV))
	case "strings.ToUpper":
		return ex.caseMap(args[0].(*StrV), true)
	case "strings.ToLower":
		return ex.caseMap(args[0].(*StrV), false)
	case "strings.ReplaceAll":
		s := args[0].(*StrV)
		old, ok1 := args[1].(*StrV).concrete()
		nw := args[2].(*StrV)
		if !ok1 || len(old) != 1 {
			ex.end("unsupported", "ReplaceAll with non-1-byte old")
		}
		ex.cost += len(s.b)
		r := &StrV{}
		for _, b := range s.b {
			if ex.branch(Cmp("=", b, BVC(8, uint64(old[0])))) {
				r.b = append(r.b, nw.b...)
			} else {
				r.b = append(r.b, b)
			}
		}
		return r
	case "strings.TrimLeftFunc":
		s := args[0].(*StrV)
		f := args[1].(*FuncV)
		i := 0
		for i < len(s.b) {
			ex.cost++
			b := s.b[i]
			var r *Term
			hi := ex.branch(Cmp("bvuge", b, BVC(8, 0x80)))
			if hi {
				r = ex.fresh("rune", 32)
				ex.assume(And(Cmp("bvuge", r, BVC(32, 0x80)), Cmp("bvule", r, BVC(32, 0x10FFFF))))
			} else {
				r = ZExt(b, 32)
			}
			res := ex.call(f.fn, []Val{r}, f.env).(*Term)
			t := ex.branch(res)
			if !t {
				if hi {
					ex.end("unsupported", "TrimLeftFunc predicate false on a non-ASCII rune")
				}
				break
			}
			i++
		}
		return &StrV{b: s.b[i:]}
	case "(*strings.Builder).WriteByte":
		o := args[0].(*PtrV).o
		bv := o.v.(*BuilderV)
		bv.b = append(bv.b, args[1].(*Term))
		return nil
	case "(*strings.Builder).WriteString":
		o := args[0].(*PtrV).o
		bv := o.v.(*BuilderV)
		bv.b = append(bv.b, args[1].(*StrV).b...)
		return TupleV{BVC(64, uint64(len(args[1].(*StrV).b))), nil}
	case "(*strings.Builder).Grow":
		n := args[1].(*Term)
		if ex.branch(Cmp("bvslt", n, BVC(64, 0))) {
			ex.end("panic", "strings.Builder.Grow: negative count")
		}
		return nil
	case "(*strings.Builder).String":
		o := args[0].(*PtrV).o
		return &StrV{b: append([]*Term(nil), o.v.(*BuilderV).b...)}
	}
	switch name {
	case "(*sync.Mutex).Lock", "(*sync.Mutex).Unlock", "(*sync.RWMutex).Lock", "(*sync.RWMutex).Unlock", "(*sync.RWMutex).RLock", "(*sync.RWMutex).RUnlock":
		// a single call is explored at a time: locks are no-ops (DESIGN.md 3.5)
		return nil
	case "(*sync.Mutex).TryLock":
		return tTrue
	case "(*sync.Once).Do":
		o := args[0].(*PtrV).o
		if ex.onceDone == nil {
			ex.onceDone = map[*Obj]bool{}
		}
		if !ex.onceDone[o] {
			ex.onceDone[o] = true
			ex.undo = append(ex.undo, func() { delete(ex.onceDone, o) })
			f := args[1].(*FuncV)
			ex.call(f.fn, nil, f.env)
		}
		return nil
	case "(*sync.Pool).Put":
		o := args[0].(*PtrV).o
		if ex.pools == nil {
			ex.pools = map[*Obj][]Val{}
		}
		ex.pools[o] = append(ex.pools[o], args[1])
		return nil
	case "(*sync.Pool).Get":
		o := args[0].(*PtrV).o
		have := ex.pools[o]
		// The runtime may hand back any object put earlier, or none. Handing back none is the behaviour without a pool,
		// which every other harness already covers; the model therefore always reuses the most recently put object
		// (what a single P does), which is the case that can carry state from one call into the next.
		takeNew := len(have) == 0
		if !takeNew {
			v := have[len(have)-1]
			ex.pools[o] = have[:len(have)-1]
			return v
		}
		// field New of sync.Pool
		st := fn.Signature.Recv().Type().(*types.Pointer).Elem().Underlying().(*types.Struct)
		for i := 0; i < st.NumFields(); i++ {
			if st.Field(i).Name() == "New" {
				f, _ := load(o.sub[i]).(*FuncV)
				if f == nil || f.fn == nil {
					return nil
				}
				return ex.call(f.fn, nil, f.env)
			}
		}
		return nil
	}
	if strings.HasPrefix(name, "sync/atomic.") || strings.HasPrefix(name, "(*sync/atomic.") {
		ex.end("unsupported", "atomic operation "+name+" (shared mutable state; see C05)")
	}
	ex.end("unsupported", "external call "+name)
	return nil
}

func (ex *Exec) harnessIntrinsic(fn *ssa.Function, args []Val) (Val, bool) {
	switch fn.Name() {
	case "vNondetString":
		n := int(args[0].(*Term).c)
		s := &StrV{}
		id := len(ex.inputs)
		for i := 0; i < n; i++ {
			v := Var(fmt.Sprintf("in%d_%d", id, i), 8)
			s.b = append(s.b, v)
			ex.inputs = append(ex.inputs, v)
		}
		if id == 0 && n > 0 && ex.partHi >= 0 {
			ex.assume(And(Cmp("bvuge", s.b[0], BVC(8, uint64(ex.partLo))), Cmp("bvule", s.b[0], BVC(8, uint64(ex.partHi)))))
		}
		return s, true
	case "vByteIn":
		set, _ := args[0].(*StrV).concrete()
		v := Var(fmt.Sprintf("nb%d", len(ex.inputs)), 8)
		ex.inputs = append(ex.inputs, v)
		var ors []*Term
		for i := 0; i < len(set); i++ {
			ors = append(ors, Cmp("=", v, BVC(8, uint64(set[i]))))
		}
		ex.assume(Or(ors...))
		return v, true
	case "vNotKeyComponent":
		return Not(ex.keyMember(args[0].(*StrV), true)), true
	case "vNondetByte":
		v := Var(fmt.Sprintf("nb%d", len(ex.inputs)), 8)
		ex.inputs = append(ex.inputs, v)
		return v, true
	case "vNondetInt":
		v := Var(fmt.Sprintf("ni%d", len(ex.inputs)), 64)
		ex.inputs = append(ex.inputs, v)
		return v, true
	case "vNondetBool":
		v := Var(fmt.Sprintf("nB%d", len(ex.inputs)), 0)
		ex.inputs = append(ex.inputs, v)
		return v, true
	case "vAssume":
		ex.assume(args[0].(*Term))
		return nil, true
	case "vAssert":
		c := args[0].(*Term)
		msg, _ := args[1].(*StrV).concrete()
		if c.IsConst() {
			if !c.BoolVal() {
				ex.end("violation", "assert failed: "+msg)
			}
			return nil, true
		}
		if !ex.branch(c) {
			ex.end("violation", "assert failed: "+msg)
		}
		return nil, true
	case "vCover":
		msg, _ := args[0].(*StrV).concrete()
		ex.labels = append(ex.labels, msg)
		return nil, true
	case "vCost":
		return BVC(64, uint64(ex.cost)), true
	case "vDepth":
		return BVC(64, uint64(ex.maxDepth)), true
	case "vResetDepth":
		ex.maxDepth = ex.depth
		return nil, true
	case "vObserveInt", "vObserveBool", "vObserveStr", "vObserveByte":
		lbl, _ := args[0].(*StrV).concrete()
		ex.obs = append(ex.obs, obsItem{lbl, args[1]})
		return nil, true
	case "vIntIn":
		lo, hi := int64(args[0].(*Term).c), int64(args[1].(*Term).c)
		v := Var(fmt.Sprintf("ni%d", len(ex.inputs)), 64)
		ex.inputs = append(ex.inputs, v)
		if hi < lo {
			ex.end("infeasible", "empty vIntIn range")
		}
		i, _ := ex.fork(func() ([]*Term, []uint64) {
			var alts []*Term
			for k := lo; k <= hi; k++ {
				alts = append(alts, Cmp("=", v, BVC(64, uint64(k))))
			}
			return alts, nil
		})
		return BVC(64, uint64(lo+int64(i))), true
	case "vUpperASCII":
		s := args[0].(*StrV)
		r := &StrV{}
		for _, b := range s.b {
			r.b = append(r.b, Ite(And(Cmp("bvuge", b, BVC(8, 'a')), Cmp("bvule", b, BVC(8, 'z'))), BVBin("bvsub", b, BVC(8, 0x20)), b))
		}
		return r, true
	case "vLowerASCII":
		s := args[0].(*StrV)
		r := &StrV{}
		for _, b := range s.b {
			r.b = append(r.b, Ite(And(Cmp("bvuge", b, BVC(8, 'A')), Cmp("bvule", b, BVC(8, 'Z'))), BVBin("bvadd", b, BVC(8, 0x20)), b))
		}
		return r, true
	case "vTableKeys":
		var keys []string
		for g, o := range ex.globals {
			if g.Name() == "sqlKeywords" {
				if m, ok := o.v.(*MapV); ok && m != nil {
					for k := range m.m {
						keys = append(keys, k)
					}
				}
			}
		}
		sort.Strings(keys)
		sv := &SliceV{len: len(keys), cap: len(keys)}
		for _, k := range keys {
			sv.arr = append(sv.arr, &Obj{v: strOf(k)})
		}
		return sv, true
	case "vIsKeyword":
		// Bool term: the (already case-folded by the caller or not) string equals some key of sqlKeywords, compared after ASCII upper-casing
		return ex.keyMember(args[0].(*StrV), false), true
	}
	return nil, false
}

// keyMember builds the Bool term "ASCII-upper(w) is a key of sqlKeywords" (components=false) or
// "... is a space-delimited component of a key" (components=true), over the table built by the executed init.
func (ex *Exec) keyMember(w *StrV, components bool) *Term {
	if ex.components == nil {
		ex.components = map[int][]string{}
		seen := map[string]bool{}
		for g, o := range ex.globals {
			if g.Name() != "sqlKeywords" {
				continue
			}
			m := o.v.(*MapV)
			for k := range m.m {
				if !seen["K"+k] {
					seen["K"+k] = true
					ex.components[-len(k)-1] = append(ex.components[-len(k)-1], k)
				}
				for _, part := range strings.Split(k, " ") {
					if !seen[part] {
						seen[part] = true
						ex.components[len(part)] = append(ex.components[len(part)], part)
					}
				}
			}
		}
		for _, l := range ex.components {
			sort.Strings(l)
		}
	}
	up := make([]*Term, len(w.b))
	for i, b := range w.b {
		up[i] = Ite(And(Cmp("bvuge", b, BVC(8, 'a')), Cmp("bvule", b, BVC(8, 'z'))), BVBin("bvsub", b, BVC(8, 0x20)), b)
	}
	idx := len(w.b)
	if !components {
		idx = -len(w.b) - 1
	}
	var ors []*Term
	for _, c := range ex.components[idx] {
		var cs []*Term
		dead := false
		for i := range up {
			e := Cmp("=", up[i], BVC(8, uint64(c[i])))
			if e.IsConst() && !e.BoolVal() {
				dead = true
				break
			}
			cs = append(cs, e)
		}
		if !dead {
			ors = append(ors, And(cs...))
		}
	}
	return Or(ors...)
}
