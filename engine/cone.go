package main

import (
	"golang.org/x/tools/go/ssa"
)

type coneExit struct {
	target, pred *ssa.BasicBlock
	guard        *Term
}

type noForkMarker struct{}

func pureInstr(in ssa.Instruction) bool {
	switch x := in.(type) {
	case *ssa.BinOp, *ssa.UnOp, *ssa.FieldAddr, *ssa.IndexAddr, *ssa.Index, *ssa.Slice, *ssa.Convert, *ssa.ChangeType, *ssa.Extract, *ssa.Field, *ssa.DebugRef:
		return true
	case *ssa.Call:
		if b, ok := x.Common().Value.(*ssa.Builtin); ok && b.Name() == "len" {
			return true
		}
	}
	return false
}

// tryEval evaluates the non-terminator instructions of blk speculatively. It reports false if any of them
// would panic, fork, or is not side-effect free.
func (ex *Exec) tryEval(fr *frame, blk *ssa.BasicBlock) (ok bool) {
	n := len(blk.Instrs) - 1
	for _, in := range blk.Instrs[:n] {
		if !pureInstr(in) {
			return false
		}
	}
	saved := ex.noFork
	ex.noFork = true
	defer func() {
		ex.noFork = saved
		if r := recover(); r != nil {
			switch r.(type) {
			case noForkMarker, pathEnd:
				ok = false
				return
			}
			panic(r)
		}
	}()
	for _, in := range blk.Instrs[:n] {
		ex.instr(fr, in)
	}
	return true
}

// cone expands the short-circuit region below an If with symbolic condition.
func (ex *Exec) cone(fr *frame, b *ssa.BasicBlock, c *Term) []coneExit {
	var exits []coneExit
	budget := 64
	var expand func(blk, pred *ssa.BasicBlock, guard *Term)
	expand = func(blk, pred *ssa.BasicBlock, guard *Term) {
		budget--
		if budget > 0 && len(blk.Preds) == 1 {
			if ifi, isIf := blk.Instrs[len(blk.Instrs)-1].(*ssa.If); isIf {
				if _, hasPhi := blk.Instrs[0].(*ssa.Phi); !hasPhi && ex.tryEval(fr, blk) {
					cond, okc := ex.get(fr, ifi.Cond).(*Term)
					if okc {
						if cond.IsConst() {
							if cond.BoolVal() {
								expand(blk.Succs[0], blk, guard)
							} else {
								expand(blk.Succs[1], blk, guard)
							}
							return
						}
						expand(blk.Succs[0], blk, And(guard, cond))
						expand(blk.Succs[1], blk, And(guard, Not(cond)))
						return
					}
				}
			}
		}
		// if-conversion of a pure side block: single predecessor, no phi, only side-effect-free instructions,
		// ends in a jump to the join point. Its values are computed speculatively; the join's phis select them by guard.
		if budget > 0 && len(blk.Preds) == 1 && len(blk.Instrs) <= 8 {
			if _, isJump := blk.Instrs[len(blk.Instrs)-1].(*ssa.Jump); isJump {
				if _, hasPhi := blk.Instrs[0].(*ssa.Phi); !hasPhi && len(blk.Succs[0].Preds) > 1 && ex.tryEval(fr, blk) {
					exits = append(exits, coneExit{blk.Succs[0], blk, guard})
					return
				}
			}
		}
		exits = append(exits, coneExit{blk, pred, guard})
	}
	expand(b.Succs[0], b, c)
	expand(b.Succs[1], b, Not(c))
	return exits
}

// takeIf handles an If with a symbolic condition using cone merging. It sets fr.block/fr.prev.
func (ex *Exec) takeIf(fr *frame, b *ssa.BasicBlock, c *Term) {
	exits := ex.cone(fr, b, c)
	// group by target
	type grp struct {
		target *ssa.BasicBlock
		ex     []coneExit
	}
	var groups []*grp
	for _, e := range exits {
		var g *grp
		for _, q := range groups {
			if q.target == e.target {
				g = q
			}
		}
		if g == nil {
			g = &grp{target: e.target}
			groups = append(groups, g)
		}
		g.ex = append(g.ex, e)
	}
	// a group is mergeable if the target has no phi, or all phi inputs along the group's edges are terms
	type alt struct {
		target, pred *ssa.BasicBlock
		guard        *Term
		phis         map[*ssa.Phi]Val
	}
	var alts []alt
	for _, g := range groups {
		if len(g.ex) == 1 {
			alts = append(alts, alt{g.target, g.ex[0].pred, g.ex[0].guard, nil})
			continue
		}
		mergeable := true
		phis := map[*ssa.Phi]Val{}
		for _, in := range g.target.Instrs {
			phi, ok := in.(*ssa.Phi)
			if !ok {
				break
			}
			// identical incoming values (any type) need no merging
			{
				var first Val
				same := true
				for i, e := range g.ex {
					var v Val
					for pi, p := range g.target.Preds {
						if p == e.pred {
							v = ex.get(fr, phi.Edges[pi])
						}
					}
					if i == 0 {
						first = v
					} else if !sameVal(first, v) {
						same = false
						break
					}
				}
				if same {
					phis[phi] = first
					continue
				}
			}
			var merged *Term
			for i := len(g.ex) - 1; i >= 0; i-- {
				e := g.ex[i]
				var v Val
				for pi, p := range g.target.Preds {
					if p == e.pred {
						v = ex.get(fr, phi.Edges[pi])
					}
				}
				t, ok := v.(*Term)
				if !ok {
					mergeable = false
					break
				}
				if merged == nil {
					merged = t
				} else if t.w == 0 {
					merged = Or(And(e.guard, t), And(Not(e.guard), merged))
				} else {
					merged = Ite(e.guard, t, merged)
				}
			}
			if !mergeable {
				break
			}
			phis[phi] = merged
		}
		if !mergeable {
			for _, e := range g.ex {
				alts = append(alts, alt{g.target, e.pred, e.guard, nil})
			}
			continue
		}
		var gs []*Term
		for _, e := range g.ex {
			gs = append(gs, e.guard)
		}
		alts = append(alts, alt{g.target, g.ex[0].pred, Or(gs...), phis})
	}
	choice := 0
	if len(alts) > 1 {
		choice, _ = ex.forkE(func() ([]*Term, []uint64) {
			var ts []*Term
			for _, a := range alts {
				ts = append(ts, a.guard)
			}
			return ts, nil
		}, true)
	}
	a := alts[choice]
	fr.prev, fr.block = a.pred, a.target
	fr.phiOverride = a.phis
}

// sameVal: cheap identity test used when merging phi inputs of arbitrary type.
func sameVal(a, b Val) bool {
	switch x := a.(type) {
	case *Term:
		y, ok := b.(*Term)
		return ok && x == y
	case *PtrV:
		y, ok := b.(*PtrV)
		return ok && x.o == y.o
	case *SliceV:
		y, ok := b.(*SliceV)
		if !ok {
			return false
		}
		if x == y {
			return true
		}
		if x.len != y.len || x.off != y.off || x.cap != y.cap || len(x.arr) != len(y.arr) {
			return false
		}
		return len(x.arr) == 0 || &x.arr[0] == &y.arr[0]
	case *StrV:
		y, ok := b.(*StrV)
		if !ok || len(x.b) != len(y.b) {
			return false
		}
		for i := range x.b {
			if x.b[i] != y.b[i] {
				return false
			}
		}
		return true
	case *FuncV:
		y, ok := b.(*FuncV)
		return ok && x == y
	case nil:
		return b == nil
	}
	return false
}
