package main

import (
	"bufio"
	"fmt"
	"io"
	"os/exec"
	"strings"
	"time"
)

// Solver is one long-lived SMT solver process (z3 -in by default) driven incrementally with push/pop.
type Solver struct {
	bin     string
	args    []string
	cmd     *exec.Cmd
	in      *bufio.Writer
	inC     io.WriteCloser
	out     *bufio.Reader
	depth   int
	decls   [][]*Term // per depth, vars declared
	known   map[*Term]bool
	Queries int
	SatN    int
	UnsatN  int
	Unknown int
	Errors  []string
	Time    time.Duration
	log     io.Writer
}

type solverTrouble struct{ msg string }

func NewSolver(bin string, args ...string) *Solver {
	s := &Solver{bin: bin, args: args}
	s.start()
	return s
}

func (s *Solver) start() {
	cmd := exec.Command(s.bin, s.args...)
	in, _ := cmd.StdinPipe()
	out, _ := cmd.StdoutPipe()
	if err := cmd.Start(); err != nil {
		panic(err)
	}
	s.cmd, s.inC, s.in, s.out = cmd, in, bufio.NewWriterSize(in, 1<<16), bufio.NewReaderSize(out, 1<<16)
	s.known = map[*Term]bool{}
	s.decls = [][]*Term{nil}
	s.depth = 0
	s.send("(set-option :print-success false)")
	s.send("(set-logic QF_BV)")
}

// Reset returns the solver to an empty assertion stack (used between jobs; terms are re-interned per job).
func (s *Solver) Reset() {
	s.send("(reset)")
	s.known = map[*Term]bool{}
	s.decls = [][]*Term{nil}
	s.depth = 0
	s.send("(set-option :print-success false)")
	s.send("(set-logic QF_BV)")
}

func (s *Solver) send(line string) {
	if s.log != nil {
		fmt.Fprintln(s.log, line)
	}
	s.in.WriteString(line)
	s.in.WriteByte('\n')
}

func (s *Solver) declareVars(t *Term) {
	if t.nv == 0 {
		return
	}
	if t.op == "var" {
		if !s.known[t] {
			s.known[t] = true
			s.decls[s.depth] = append(s.decls[s.depth], t)
			if t.w == 0 {
				s.send(fmt.Sprintf("(declare-const %s Bool)", t.name))
			} else {
				s.send(fmt.Sprintf("(declare-const %s (_ BitVec %d))", t.name, t.w))
			}
		}
		return
	}
	for _, a := range t.args {
		s.declareVars(a)
	}
}

func (s *Solver) Push() {
	s.send("(push 1)")
	s.depth++
	s.decls = append(s.decls, nil)
}

func (s *Solver) Pop() {
	s.send("(pop 1)")
	for _, n := range s.decls[s.depth] {
		delete(s.known, n)
	}
	s.decls = s.decls[:s.depth]
	s.depth--
}

func (s *Solver) Assert(t *Term) {
	s.declareVars(t)
	s.send("(assert " + t.String() + ")")
}

func (s *Solver) readLine() string {
	s.in.Flush()
	line, err := s.out.ReadString('\n')
	if err != nil {
		panic(solverTrouble{"solver died: " + err.Error()})
	}
	return strings.TrimSpace(line)
}

// Check returns "sat" or "unsat"; anything else (unknown, an (error ...) line) raises solverTrouble,
// which makes the job inconclusive: it is never reported as "held".
func (s *Solver) Check() string {
	t0 := time.Now()
	s.send("(check-sat)")
	r := s.readLine()
	s.Time += time.Since(t0)
	s.Queries++
	switch r {
	case "sat":
		s.SatN++
	case "unsat":
		s.UnsatN++
	default:
		s.Unknown++
		s.Errors = append(s.Errors, r)
		panic(solverTrouble{"solver said: " + r})
	}
	return r
}

// Values returns concrete values for the given vars in the current sat model.
func (s *Solver) Values(vars []*Term) []uint64 {
	out := make([]uint64, len(vars))
	for i, v := range vars {
		s.declareVars(v)
		s.send("(get-value (" + v.String() + "))")
		line := s.readLine()
		if strings.HasPrefix(line, "(error") {
			s.Errors = append(s.Errors, line)
			panic(solverTrouble{"get-value: " + line})
		}
		// ((b0 #x41)) or ((nB1 true))
		line = strings.TrimSuffix(strings.TrimSpace(line), "))")
		idx := strings.LastIndex(line, " ")
		tok := line[idx+1:]
		var val uint64
		switch {
		case tok == "true":
			val = 1
		case tok == "false":
			val = 0
		case strings.HasPrefix(tok, "#x"):
			fmt.Sscanf(tok[2:], "%x", &val)
		case strings.HasPrefix(tok, "#b"):
			fmt.Sscanf(tok[2:], "%b", &val)
		default:
			panic(solverTrouble{"get-value: cannot parse " + line})
		}
		out[i] = val
	}
	return out
}

func (s *Solver) Close() {
	s.send("(exit)")
	s.in.Flush()
	s.inC.Close()
	s.cmd.Wait()
}
