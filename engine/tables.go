package main

import (
	"encoding/json"
	"fmt"
	"os"
	"sort"
)

// dumpTables executes the package initialisers in the interpreter and prints the shipped tables as the
// compiled code builds them (used by C20 and by the grammar generators of C03/C04/C19).
func dumpTables(w *World) {
	ex, err := w.newExec(nil)
	if err != nil {
		fmt.Fprintln(os.Stderr, err)
		os.Exit(2)
	}
	out := map[string]interface{}{}
	strOf := func(v Val) string {
		s, ok := v.(*StrV).concrete()
		if !ok {
			panic("symbolic string in table")
		}
		return s
	}
	for g, o := range ex.globals {
		switch g.Name() {
		case "sqlKeywords":
			m := map[string]string{}
			if mv, ok := o.v.(*MapV); ok && mv != nil {
				for k, v := range mv.m {
					m[k] = string([]byte{byte(v.(*Term).c)})
				}
			}
			out["sqlKeywords"] = m
		case "blackEvents", "blacks":
			var l [][2]interface{}
			sv := o.v.(*SliceV)
			for i := 0; i < sv.len; i++ {
				e := load(sv.arr[sv.off+i]).(*StructV)
				l = append(l, [2]interface{}{strOf(e.f[0]), int64(e.f[1].(*Term).c)})
			}
			out[g.Name()] = l
		case "blackTags":
			var l []string
			sv := o.v.(*SliceV)
			for i := 0; i < sv.len; i++ {
				l = append(l, strOf(load(sv.arr[sv.off+i])))
			}
			out["blackTags"] = l
		case "byteParsers":
			var l []string
			sv := o.v.(*SliceV)
			for i := 0; i < sv.len; i++ {
				f := load(sv.arr[sv.off+i]).(*FuncV)
				if f.fn == nil {
					l = append(l, "")
				} else {
					l = append(l, f.fn.Name())
				}
			}
			out["byteParsers"] = l
		case "wordAcceptTable", "varAcceptTable", "gsHexDecodeMap":
			var l []int64
			switch v := o.v.(type) {
			case *SliceV:
				for i := 0; i < v.len; i++ {
					l = append(l, int64(load(v.arr[v.off+i]).(*Term).c))
				}
			default:
				for _, e := range o.sub {
					l = append(l, int64(load(e).(*Term).c))
				}
			}
			out[g.Name()] = l
		}
	}
	var names []string
	for g := range ex.globals {
		names = append(names, g.Name())
	}
	sort.Strings(names)
	out["globals"] = names
	b, _ := json.Marshal(out)
	fmt.Println(string(b))
}
