package main

import "strings"

// Byte-domain fast path: a complete decision procedure for conjunctions of
// single-variable constraints over 8-bit variables (evaluate the constraint on all 256 values).

type bitset [4]uint64

func (b *bitset) has(i int) bool { return b[i>>6]&(1<<uint(i&63)) != 0 }
func (b *bitset) empty() bool    { return b[0]|b[1]|b[2]|b[3] == 0 }
func (b bitset) and(o bitset) bitset {
	return bitset{b[0] & o[0], b[1] & o[1], b[2] & o[2], b[3] & o[3]}
}
func (b bitset) or(o bitset) bitset {
	return bitset{b[0] | o[0], b[1] | o[1], b[2] | o[2], b[3] | o[3]}
}
func (b bitset) not() bitset { return bitset{^b[0], ^b[1], ^b[2], ^b[3]} }
func (b bitset) count() int {
	n := 0
	for i := 0; i < 256; i++ {
		if b.has(i) {
			n++
		}
	}
	return n
}

var fullSet = bitset{^uint64(0), ^uint64(0), ^uint64(0), ^uint64(0)}

type domState struct {
	d   map[*Term]bitset
	rel map[*Term]bool
}

func newDom() *domState { return &domState{d: map[*Term]bitset{}, rel: map[*Term]bool{}} }
func (s *domState) clone() *domState {
	n := &domState{d: make(map[*Term]bitset, len(s.d)+1), rel: make(map[*Term]bool, len(s.rel)+1)}
	for k, v := range s.d {
		n.d[k] = v
	}
	for k := range s.rel {
		n.rel[k] = true
	}
	return n
}
func (s *domState) get(v *Term) bitset {
	if b, ok := s.d[v]; ok {
		return b
	}
	return fullSet
}

func termVars(t *Term, acc map[*Term]bool) {
	if t.nv == 0 {
		return
	}
	if t.op == "var" {
		acc[t] = true
		return
	}
	if t.nv == 1 {
		acc[t.v1] = true
		return
	}
	for _, a := range t.args {
		termVars(a, acc)
	}
}

func flatten(t *Term, out *[]*Term) {
	if t.op == "and" {
		for _, a := range t.args {
			flatten(a, out)
		}
		return
	}
	if t.op == "not" && t.args[0].op == "or" {
		for _, a := range t.args[0].args {
			flatten(Not(a), out)
		}
		return
	}
	*out = append(*out, t)
}

// evalT evaluates t with its single variable = val; all other leaves must be constants.
func evalT(t *Term, val uint64) uint64 {
	switch t.op {
	case "var":
		return val
	case "const":
		return t.c
	case "true":
		return 1
	case "false":
		return 0
	case "not":
		return 1 - evalT(t.args[0], val)
	case "and":
		for _, a := range t.args {
			if evalT(a, val) == 0 {
				return 0
			}
		}
		return 1
	case "or":
		for _, a := range t.args {
			if evalT(a, val) == 1 {
				return 1
			}
		}
		return 0
	case "ite":
		if evalT(t.args[0], val) == 1 {
			return evalT(t.args[1], val)
		}
		return evalT(t.args[2], val)
	}
	if len(t.args) == 1 {
		a := t.args[0]
		x := evalT(a, val)
		switch {
		case strings.HasPrefix(t.op, "(_ zero_extend"):
			return x
		case strings.HasPrefix(t.op, "(_ sign_extend"):
			return uint64(sext(x, a.w)) & mask(t.w)
		case strings.HasPrefix(t.op, "(_ extract"):
			return x & mask(t.w)
		}
		panic("evalT: " + t.op)
	}
	a, b := t.args[0], t.args[1]
	x, y := evalT(a, val)&mask(a.w), evalT(b, val)&mask(b.w)
	w := a.w
	bo := func(c bool) uint64 {
		if c {
			return 1
		}
		return 0
	}
	switch t.op {
	case "=":
		return bo(x == y)
	case "bvult":
		return bo(x < y)
	case "bvule":
		return bo(x <= y)
	case "bvugt":
		return bo(x > y)
	case "bvuge":
		return bo(x >= y)
	case "bvslt":
		return bo(sext(x, w) < sext(y, w))
	case "bvsle":
		return bo(sext(x, w) <= sext(y, w))
	case "bvsgt":
		return bo(sext(x, w) > sext(y, w))
	case "bvsge":
		return bo(sext(x, w) >= sext(y, w))
	case "bvadd":
		return (x + y) & mask(w)
	case "bvsub":
		return (x - y) & mask(w)
	case "bvmul":
		return (x * y) & mask(w)
	case "bvand":
		return x & y
	case "bvor":
		return x | y
	case "bvxor":
		return x ^ y
	case "bvshl":
		if y >= uint64(w) {
			return 0
		}
		return (x << y) & mask(w)
	case "bvlshr":
		if y >= uint64(w) {
			return 0
		}
		return x >> y
	case "bvashr":
		sh := y
		if sh >= uint64(w) {
			sh = uint64(w - 1)
		}
		return uint64(sext(x, w)>>sh) & mask(w)
	case "bvudiv":
		if y == 0 {
			return mask(w)
		}
		return x / y
	case "bvurem":
		if y == 0 {
			return x
		}
		return x % y
	case "bvsdiv":
		if y == 0 {
			if sext(x, w) < 0 {
				return 1
			}
			return mask(w)
		}
		return uint64(sext(x, w)/sext(y, w)) & mask(w)
	case "bvsrem":
		if y == 0 {
			return x
		}
		return uint64(sext(x, w)%sext(y, w)) & mask(w)
	}
	panic("evalT: op " + t.op)
}

// setOf returns the set of values of t's single 8-bit variable for which the Boolean term t holds.
func setOf(t *Term) bitset {
	if t.setOK {
		return t.set
	}
	var s bitset
	switch t.op {
	case "not":
		s = setOf(t.args[0]).not()
	case "and":
		s = fullSet
		for _, a := range t.args {
			s = s.and(setOf(a))
		}
	case "or":
		for _, a := range t.args {
			s = s.or(setOf(a))
		}
	default:
		for v := 0; v < 256; v++ {
			if evalT(t, uint64(v)) == 1 {
				s[v>>6] |= 1 << uint(v&63)
			}
		}
	}
	t.set, t.setOK = s, true
	return s
}

// check returns (definite, feasible). If !definite the solver must decide.
func (s *domState) check(a *Term) (bool, bool) {
	var csBuf [16]*Term
	cs := csBuf[:0]
	flatten(a, &cs)
	var acc map[*Term]bitset
	exact := true
	for _, c := range cs {
		if c.IsConst() {
			if !c.BoolVal() {
				return true, false
			}
			continue
		}
		if c.nv != 1 || c.v1.w != 8 {
			if c.op == "or" {
				// DNF over independent byte variables: satisfiable iff some disjunct is, and a disjunct that is a
				// conjunction of single-variable atoms is satisfiable iff each variable's domain admits it
				// (complete when none of the variables occurs in a relational constraint and in no other conjunct).
				dnfOK, anyFeasible := true, false
				for _, dj := range c.args {
					ok, feas := s.conjFeasible(dj, acc)
					if !ok {
						dnfOK = false
						break
					}
					if feas {
						anyFeasible = true
					}
				}
				if dnfOK {
					if !anyFeasible {
						return true, false
					}
					if len(cs) == 1 {
						return true, true
					}
				}
			}
			exact = false
			continue
		}
		v := c.v1
		cur, ok := acc[v]
		if !ok {
			cur = s.get(v)
		}
		cur = cur.and(setOf(c))
		if cur.empty() {
			return true, false
		}
		if acc == nil {
			acc = map[*Term]bitset{}
		}
		acc[v] = cur
		if s.rel[v] {
			exact = false
		}
	}
	if exact {
		return true, true
	}
	return false, true
}

func (s *domState) apply(a *Term) {
	var csBuf [16]*Term
	cs := csBuf[:0]
	flatten(a, &cs)
	for _, c := range cs {
		if c.IsConst() {
			continue
		}
		if c.nv == 1 && c.v1.w == 8 {
			s.d[c.v1] = s.get(c.v1).and(setOf(c))
			continue
		}
		vs := map[*Term]bool{}
		termVars(c, vs)
		for v := range vs {
			s.rel[v] = true
		}
	}
}

// conjFeasible decides a conjunction of single-variable 8-bit atoms against the domains. ok=false if the
// disjunct is not of that shape or touches a variable with relational constraints.
func (s *domState) conjFeasible(t *Term, acc map[*Term]bitset) (ok bool, feasible bool) {
	var buf [16]*Term
	cs := buf[:0]
	flatten(t, &cs)
	var loc map[*Term]bitset
	for _, c := range cs {
		if c.IsConst() {
			if !c.BoolVal() {
				return true, false
			}
			continue
		}
		if c.nv != 1 || c.v1.w != 8 || s.rel[c.v1] {
			return false, true
		}
		v := c.v1
		cur, have := loc[v]
		if !have {
			if a, inAcc := acc[v]; inAcc {
				cur = a
			} else {
				cur = s.get(v)
			}
		}
		cur = cur.and(setOf(c))
		if cur.empty() {
			return true, false
		}
		if loc == nil {
			loc = map[*Term]bitset{}
		}
		loc[v] = cur
	}
	return true, true
}
