package main

import (
	"fmt"
	"os"
	"unicode/utf8"
	"go/constant"
	"go/token"
	"go/types"
	"sort"
	"strings"

	"golang.org/x/tools/go/ssa"
)

type decision struct {
	alts []*Term
	cur  int
	data []uint64
}

type pathEnd struct {
	kind string // "done","panic","infeasible","excluded","violation","unsupported"
	msg  string
}

type Exec struct {
	prog     *ssa.Program
	pkg      *ssa.Package
	sol      *Solver
	globals  map[*ssa.Global]*Obj
	initDone bool

	decisions []*decision
	dpos      int // next decision index during a run
	nvars     int
	inputs    []*Term // symbolic input vars created this run (deterministic order)

	steps    int
	maxSteps int
	cost     int
	depth    int
	maxDepth int // per path
	obs      []obsItem
	labels   []string // vCover labels hit on this path
	pathExcl bool     // path went through an over-approximate model (blob)
	writes   []string // writes to shared objects on this path

	dom      *domState
	domStack []*domState
	useDom   bool
	fastN, slowN int
	impliedN int
	safety   bool
	noFork   bool
	useCone  bool
	lazyLookup bool
	frameCheck bool
	partLo, partHi int
	components map[int][]string
	cur      ssa.Instruction
	forkAt   map[string]int
	funcs    map[string]bool
	toUpperMemo map[string]*StrV
	undo     []func()
	inflight []bool // one entry per panic being handled by deferred calls; cleared by recover()
	recovered int
	paranoid bool
	paranoidN, paranoidBad int
	onceDone map[*Obj]bool
	pools    map[*Obj][]Val
	known    map[*Term]bool // alternatives asserted on the current path (pointer-equal terms are implied)
}

type obsItem struct {
	label string
	v     Val
}

type frame struct {
	defers      []func()
	phiOverride map[*ssa.Phi]Val
	fn    *ssa.Function
	env   []Val
	slots map[ssa.Value]int
	block *ssa.BasicBlock
	prev  *ssa.BasicBlock
}

func (ex *Exec) end(kind, msg string) { panic(pathEnd{kind, msg}) }

func (ex *Exec) sharedWrite(msg string) {
	if ex.frameCheck {
		ex.end("violation", "frame condition: "+msg)
	}
	ex.writes = append(ex.writes, msg)
}

// fork chooses among mutually exclusive, exhaustive alternatives.
func (ex *Exec) fork(mk func() ([]*Term, []uint64)) (int, []uint64) {
	return ex.forkE(mk, false)
}

// forkE: with elim=true (only for sites whose alternatives are exhaustive and whose mk is pure and cheap) an
// alternative that is the only one the byte domains do not refute is taken without a decision.
func (ex *Exec) forkE(mk func() ([]*Term, []uint64), elim bool) (int, []uint64) {
	if ex.noFork {
		panic(noForkMarker{})
	}
	var alts []*Term
	var data []uint64
	made := false
	if elim && ex.useDom {
		alts, data = mk()
		made = true
		if len(alts) > 1 {
			// The byte domains over-approximate the path condition. If they refute all but one alternative,
			// the remaining one is implied by the path condition (same on every replay: the domains are a
			// deterministic function of the decisions taken so far).
			for j, a := range alts {
				if !a.IsConst() && ex.known[a] {
					ex.impliedN++
					return j, data
				}
			}
			live, liveN := -1, 0
			for j, a := range alts {
				if !a.IsConst() && ex.known[Not(a)] {
					continue
				}
				if a.IsConst() {
					if a.BoolVal() {
						live, liveN = j, liveN+1
					}
					continue
				}
				if def, feas := ex.dom.check(a); def && !feas {
					ex.paranoidCheck(a, false)
					continue
				}
				live, liveN = j, liveN+1
				if liveN > 1 {
					break
				}
			}
			if liveN == 1 {
				ex.impliedN++
				ex.dom.apply(alts[live])
				return live, data
			}
		}
	}
	if ex.dpos < len(ex.decisions) {
		d := ex.decisions[ex.dpos]
		ex.dom = ex.domStack[ex.dpos].clone()
		ex.dom.apply(d.alts[d.cur])
		ex.known[d.alts[d.cur]] = true
		ex.dpos++
		return d.cur, d.data
	}
	if !made {
		alts, data = mk()
	}
	d := &decision{alts: alts, cur: -1, data: data}
	before := ex.dom.clone()
	if !ex.advance(d, before) {
		ex.end("infeasible", "no feasible alternative")
	}
	ex.decisions = append(ex.decisions, d)
	if ex.forkAt != nil && ex.cur != nil {
		ex.forkAt[ex.cur.Parent().Name()+" "+ex.pos(ex.cur.Pos())]++
	}
	ex.domStack = append(ex.domStack, before)
	ex.dom.apply(d.alts[d.cur])
	ex.known[d.alts[d.cur]] = true
	ex.dpos++
	return d.cur, d.data
}

// advance moves d to its next feasible alternative, leaving one solver scope pushed for it.
func (ex *Exec) advance(d *decision, dom *domState) bool {
	for j := d.cur + 1; j < len(d.alts); j++ {
		a := d.alts[j]
		if a.IsConst() && !a.BoolVal() {
			continue
		}
		if ex.useDom && !a.IsConst() {
			def, feas := dom.check(a)
			if def {
				ex.fastN++
				ex.paranoidCheck(a, feas)
				if !feas {
					continue
				}
				ex.sol.Push()
				ex.sol.Assert(a)
				d.cur = j
				return true
			}
		}
		ex.sol.Push()
		if a.IsConst() {
			d.cur = j
			return true
		}
		ex.slowN++
		ex.sol.Assert(a)
		if ex.sol.Check() == "sat" {
			d.cur = j
			return true
		}
		ex.sol.Pop()
	}
	return false
}

func (ex *Exec) branch(c *Term) bool {
	if c.IsConst() {
		return c.BoolVal()
	}
	if ex.noFork {
		panic(noForkMarker{})
	}
	if ex.known[c] {
		ex.impliedN++
		return true
	}
	if ex.known[Not(c)] {
		ex.impliedN++
		return false
	}
	if ex.useDom {
		// implied branches create no decision
		if def, feas := ex.dom.check(c); def && !feas {
			ex.impliedN++
			ex.paranoidCheck(c, false)
			return false
		}
		if def, feas := ex.dom.check(Not(c)); def && !feas {
			ex.impliedN++
			ex.paranoidCheck(Not(c), false)
			return true
		}
	}
	i, _ := ex.fork(func() ([]*Term, []uint64) { return []*Term{c, Not(c)}, nil })
	return i == 0
}

func (ex *Exec) assume(c *Term) {
	if c.IsConst() {
		if !c.BoolVal() {
			ex.end("infeasible", "assume false")
		}
		return
	}
	ex.fork(func() ([]*Term, []uint64) { return []*Term{c}, nil })
}

// iteLeaves decomposes an ite-chain with constant leaves into (guard, leaf) pairs.
func iteLeaves(t *Term, guard []*Term, out *[][2]*Term) bool {
	if t.IsConst() {
		*out = append(*out, [2]*Term{And(guard...), t})
		return true
	}
	if t.op != "ite" {
		return false
	}
	g1 := append(append([]*Term(nil), guard...), t.args[0])
	g2 := append(append([]*Term(nil), guard...), Not(t.args[0]))
	return iteLeaves(t.args[1], g1, out) && iteLeaves(t.args[2], g2, out)
}

func (ex *Exec) concretize(t *Term) uint64 {
	if !t.IsConst() {
		var leaves [][2]*Term
		if iteLeaves(t, nil, &leaves) {
			i, _ := ex.fork(func() ([]*Term, []uint64) {
				var alts []*Term
				for _, l := range leaves {
					alts = append(alts, l[0])
				}
				return alts, nil
			})
			return leaves[i][1].c
		}
	}
	for {
		if t.IsConst() {
			return t.c
		}
		i, data := ex.fork(func() ([]*Term, []uint64) {
			if ex.sol.Check() != "sat" {
				panic("pc unsat in concretize")
			}
			v := ex.sol.Values([]*Term{t})[0]
			return []*Term{Cmp("=", t, BVC(t.w, v)), Not(Cmp("=", t, BVC(t.w, v)))}, []uint64{v}
		})
		if i == 0 {
			return data[0]
		}
	}
}

func (ex *Exec) fresh(prefix string, w int) *Term {
	ex.nvars++
	return Var(fmt.Sprintf("%s_%d", prefix, ex.nvars), w)
}

// ---------- operand evaluation

func (ex *Exec) constVal(c *ssa.Const) Val {
	t := c.Type()
	if c.Value == nil {
		return zero(t)
	}
	if isString(t) {
		return strOf(constant.StringVal(c.Value))
	}
	w, _, ok := bw(t)
	if !ok {
		panic("const type " + t.String())
	}
	if w == 0 {
		return BoolC(constant.BoolVal(c.Value))
	}
	if i, ok := constant.Int64Val(constant.ToInt(c.Value)); ok {
		return BVC(w, uint64(i))
	}
	u, _ := constant.Uint64Val(constant.ToInt(c.Value))
	return BVC(w, u)
}

func (ex *Exec) get(fr *frame, v ssa.Value) Val {
	switch x := v.(type) {
	case *ssa.Const:
		return ex.constVal(x)
	case *ssa.Global:
		o, ok := ex.globals[x]
		if !ok {
			ex.end("unsupported", "global "+x.String())
		}
		return &PtrV{o}
	case *ssa.Function:
		return &FuncV{fn: x}
	case *ssa.Builtin:
		return x
	}
	i, ok := fr.slots[v]
	if !ok {
		panic(fmt.Sprintf("no slot for %s (%T) in %s", v.Name(), v, fr.fn))
	}
	return fr.env[i]
}

// ---------- call

func (ex *Exec) call(fn *ssa.Function, args []Val, env []Val) Val {
	if fn.Name() == "init" && fn.Pkg != ex.pkg {
		return nil
	}
	if fn.Blocks == nil {
		return ex.intrinsic(fn, args)
	}
	if fn.Pkg != nil && fn.Pkg != ex.pkg {
		if modelled[fn.String()] || strings.HasPrefix(fn.String(), "sync/atomic.") || strings.HasPrefix(fn.String(), "(*sync/atomic.") {
			return ex.intrinsic(fn, args)
		}
		// a library function without a model: execute its own SSA body (pure Go helpers such as sort.Search,
		// strings.EqualFold, unicode/utf8); anything it needs that is not supported ends the path as unsupported
	}
	if strings.HasPrefix(fn.Name(), "v") && fn.Pkg == ex.pkg {
		if r, ok := ex.harnessIntrinsic(fn, args); ok {
			return r
		}
	}
	if !ex.funcs[fn.String()] {
		ex.funcs[fn.String()] = true
	}
	ex.depth++
	if ex.depth > ex.maxDepth {
		ex.maxDepth = ex.depth
	}
	if ex.depth > 400 {
		ex.end("violation", "call depth exceeds 400 (unbounded recursion) in "+fn.Name())
	}
	defer func() { ex.depth-- }()
	slots := slotsOf(fn)
	fr := &frame{fn: fn, env: make([]Val, len(slots)), slots: slots}
	for i, p := range fn.Params {
		fr.env[slots[p]] = args[i]
	}
	for i, fv := range fn.FreeVars {
		fr.env[slots[fv]] = env[i]
	}
	fr.block = fn.Blocks[0]
	if fn.Recover != nil {
		// The function has deferred calls and a recover block. A run-time panic below this frame (a pathEnd of kind
		// "panic") runs the deferred calls with the panic in flight; if one of them calls recover(), execution
		// continues in the recover block, which returns the current values of the named results.
		return ex.runWithRecover(fn, fr)
	}
	return ex.runBlocks(fn, fr)
}

func (ex *Exec) runWithRecover(fn *ssa.Function, fr *frame) (ret Val) {
	depth := ex.depth
	defer func() {
		r := recover()
		if r == nil {
			return
		}
		pe, ok := r.(pathEnd)
		if !ok || pe.kind != "panic" || len(fr.defers) == 0 {
			panic(r)
		}
		ex.depth = depth
		ex.inflight = append(ex.inflight, true)
		for i := len(fr.defers) - 1; i >= 0; i-- {
			fr.defers[i]()
		}
		fr.defers = nil
		still := ex.inflight[len(ex.inflight)-1]
		ex.inflight = ex.inflight[:len(ex.inflight)-1]
		if still {
			panic(r) // not recovered: keeps propagating
		}
		ex.recovered++
		fr.prev, fr.block = nil, fn.Recover
		ret = ex.runBlocks(fn, fr)
	}()
	return ex.runBlocks(fn, fr)
}

func (ex *Exec) runBlocks(fn *ssa.Function, fr *frame) Val {
	for {
		for _, in := range fr.block.Instrs {
			ex.cur = in
			ex.steps++
			if ex.steps > ex.maxSteps {
				ex.end("violation", "step bound exceeded (possible non-termination)")
			}
			if debugTrace && ex.steps > ex.maxSteps-60 {
				fmt.Fprintf(os.Stderr, "TRACE %s b%d %T %v\n", fn.Name(), fr.block.Index, in, in)
			}
			switch x := in.(type) {
			case *ssa.Jump:
				fr.prev, fr.block = fr.block, fr.block.Succs[0]
				fr.phiOverride = nil
			case *ssa.If:
				c := ex.get(fr, x.Cond).(*Term)
				if ex.useCone && !c.IsConst() {
					ex.takeIf(fr, fr.block, c)
				} else if ex.branch(c) {
					fr.prev, fr.block = fr.block, fr.block.Succs[0]
					fr.phiOverride = nil
				} else {
					fr.prev, fr.block = fr.block, fr.block.Succs[1]
					fr.phiOverride = nil
				}
			case *ssa.Return:
				switch len(x.Results) {
				case 0:
					return nil
				case 1:
					return ex.get(fr, x.Results[0])
				}
				var t TupleV
				for _, r := range x.Results {
					t = append(t, ex.get(fr, r))
				}
				return t
			case *ssa.Panic:
				ex.end("panic", "explicit panic at "+ex.pos(x.Pos()))
			default:
				ex.instr(fr, in)
				continue
			}
			break
		}
	}
}

func (ex *Exec) pos(p token.Pos) string {
	if !p.IsValid() {
		return "?"
	}
	ps := ex.prog.Fset.Position(p)
	f := ps.Filename
	if i := strings.LastIndex(f, "/"); i >= 0 {
		f = f[i+1:]
	}
	return fmt.Sprintf("%s:%d", f, ps.Line)
}

func (ex *Exec) rtpanic(in ssa.Instruction, what string) {
	ex.end("panic", what+" at "+ex.pos(in.Pos())+" in "+in.Parent().Name())
}

func (ex *Exec) instr(fr *frame, in ssa.Instruction) {
	switch x := in.(type) {
	case *ssa.Phi:
		if v, ok := fr.phiOverride[x]; ok {
			fr.env[fr.slots[x]] = v
			return
		}
		for i, p := range fr.block.Preds {
			if p == fr.prev {
				fr.env[fr.slots[x]] = ex.get(fr, x.Edges[i])
				return
			}
		}
		panic("phi: no pred")
	case *ssa.Alloc:
		fr.env[fr.slots[x]] = &PtrV{newObj(x.Type().Underlying().(*types.Pointer).Elem())}
	case *ssa.BinOp:
		fr.env[fr.slots[x]] = ex.binop(x, ex.get(fr, x.X), ex.get(fr, x.Y))
	case *ssa.UnOp:
		fr.env[fr.slots[x]] = ex.unop(fr, x)
	case *ssa.ChangeType:
		fr.env[fr.slots[x]] = ex.get(fr, x.X)
	case *ssa.Convert:
		fr.env[fr.slots[x]] = ex.convert(x, ex.get(fr, x.X))
	case *ssa.Extract:
		fr.env[fr.slots[x]] = ex.get(fr, x.Tuple).(TupleV)[x.Index]
	case *ssa.FieldAddr:
		if se, isSym := ex.get(fr, x.X).(*SymElem); isSym {
			// address of a field of a table element at a symbolic index: concretise the index (forks on its values)
			i := int(ex.concretize(se.idx))
			fr.env[fr.slots[x]] = &PtrV{se.elems[i].sub[x.Field]}
			return
		}
		p := ex.get(fr, x.X).(*PtrV)
		if p.o == nil {
			ex.rtpanic(x, "nil dereference")
		}
		fr.env[fr.slots[x]] = &PtrV{p.o.sub[x.Field]}
	case *ssa.Field:
		fr.env[fr.slots[x]] = ex.get(fr, x.X).(*StructV).f[x.Field]
	case *ssa.IndexAddr:
		fr.env[fr.slots[x]] = ex.indexAddr(fr, x)
	case *ssa.Index:
		fr.env[fr.slots[x]] = ex.index(fr, x)
	case *ssa.Lookup:
		fr.env[fr.slots[x]] = ex.lookup(fr, x)
	case *ssa.Slice:
		fr.env[fr.slots[x]] = ex.slice(fr, x)
	case *ssa.Store:
		addr := ex.get(fr, x.Addr)
		p, ok := addr.(*PtrV)
		if !ok {
			ex.end("unsupported", "store through symbolic element address at "+ex.pos(x.Pos()))
		}
		if p.o == nil {
			ex.rtpanic(x, "nil dereference")
		}
		if ex.initDone && p.o.glb != "" {
			ex.sharedWrite("store to shared object reachable from package variable " + p.o.glb + " at " + ex.pos(x.Pos()) + " in " + x.Parent().Name())
		}
		ex.journal(p.o)
		store(p.o, ex.get(fr, x.Val))
	case *ssa.MakeClosure:
		f := &FuncV{fn: x.Fn.(*ssa.Function)}
		for _, b := range x.Bindings {
			f.env = append(f.env, ex.get(fr, b))
		}
		fr.env[fr.slots[x]] = f
	case *ssa.Call:
		fr.env[fr.slots[x]] = ex.doCall(fr, x)
	case *ssa.MakeSlice:
		n := int(ex.concretize(ex.get(fr, x.Len).(*Term)))
		c := int(ex.concretize(ex.get(fr, x.Cap).(*Term)))
		if n < 0 || c < n || c > 1<<24 {
			ex.rtpanic(x, "makeslice: len or cap out of range")
		}
		et := x.Type().Underlying().(*types.Slice).Elem()
		s := &SliceV{len: n, cap: c}
		for i := 0; i < c; i++ {
			s.arr = append(s.arr, newObj(et))
		}
		fr.env[fr.slots[x]] = s
	case *ssa.MakeMap:
		fr.env[fr.slots[x]] = &MapV{m: map[string]Val{}}
	case *ssa.MapUpdate:
		m := ex.get(fr, x.Map).(*MapV)
		var k string
		var ok bool
		switch kv := ex.get(fr, x.Key).(type) {
		case *StrV:
			k, ok = kv.concrete()
		case *Term:
			if kv.IsConst() {
				k, ok = fmt.Sprintf("\x00int:%d:%d", kv.w, kv.c), true
			}
		}
		if !ok {
			ex.end("unsupported", "symbolic or non-string map key update")
		}
		if ex.initDone && m.shared {
			ex.sharedWrite("update of shared map at " + ex.pos(x.Pos()) + " in " + x.Parent().Name())
		}
		if ex.initDone && m.shared {
			old, had := m.m[k]
			ex.undo = append(ex.undo, func() {
				if had {
					m.m[k] = old
				} else {
					delete(m.m, k)
				}
				m.byLen = nil
			})
		}
		m.m[k] = ex.get(fr, x.Value)
		m.byLen = nil
	case *ssa.MakeInterface:
		fr.env[fr.slots[x]] = ex.get(fr, x.X)
	case *ssa.TypeAssert:
		v := ex.get(fr, x.X)
		if x.CommaOk {
			fr.env[fr.slots[x]] = TupleV{v, BoolC(v != nil)}
		} else {
			if v == nil {
				ex.rtpanic(x, "interface conversion: interface is nil")
			}
			fr.env[fr.slots[x]] = v
		}
	case *ssa.Defer:
		cc := x.Common()
		var args []Val
		for _, a := range cc.Args {
			args = append(args, ex.get(fr, a))
		}
		if cc.IsInvoke() {
			ex.end("unsupported", "deferred interface invoke")
		}
		switch f := cc.Value.(type) {
		case *ssa.Function:
			fr.defers = append(fr.defers, func() { ex.call(f, args, nil) })
		case *ssa.Builtin:
			ex.end("unsupported", "deferred builtin")
		default:
			fv := ex.get(fr, cc.Value).(*FuncV)
			fr.defers = append(fr.defers, func() { ex.call(fv.fn, args, fv.env) })
		}
	case *ssa.RunDefers:
		for i := len(fr.defers) - 1; i >= 0; i-- {
			fr.defers[i]()
		}
		fr.defers = nil
	case *ssa.Range:
		switch c := ex.get(fr, x.X).(type) {
		case *MapV:
			it := &IterV{}
			if c != nil {
				keys := make([]string, 0, len(c.m))
				for k := range c.m {
					keys = append(keys, k)
				}
				sort.Strings(keys) // Go's order is unspecified; code whose result depends on it is outside the model
				it.m, it.keys = c, keys
			}
			fr.env[fr.slots[x]] = it
		case *StrV:
			str, ok := c.concrete()
			if !ok {
				ex.end("unsupported", "range over a symbolic string")
			}
			fr.env[fr.slots[x]] = &IterV{str: str, isStr: true}
		default:
			ex.end("unsupported", "range over "+x.X.Type().String())
		}
	case *ssa.Next:
		it := ex.get(fr, x.Iter).(*IterV)
		if it.isStr {
			if it.pos >= len(it.str) {
				fr.env[fr.slots[x]] = TupleV{tFalse, BVC(64, 0), BVC(32, 0)}
			} else {
				r, w := utf8.DecodeRuneInString(it.str[it.pos:])
				fr.env[fr.slots[x]] = TupleV{tTrue, BVC(64, uint64(it.pos)), BVC(32, uint64(r))}
				it.pos += w
			}
		} else {
			if it.pos >= len(it.keys) {
				mt := x.Iter.(*ssa.Range).X.Type().Underlying().(*types.Map)
				fr.env[fr.slots[x]] = TupleV{tFalse, zero(mt.Key()), zero(mt.Elem())}
			} else {
				k := it.keys[it.pos]
				it.pos++
				fr.env[fr.slots[x]] = TupleV{tTrue, strOf(k), it.m.m[k]}
			}
		}
	case *ssa.DebugRef:
	default:
		ex.end("unsupported", fmt.Sprintf("instr %T at %s", in, ex.pos(in.Pos())))
	}
}

func (ex *Exec) doCall(fr *frame, x *ssa.Call) Val {
	cc := x.Common()
	var args []Val
	for _, a := range cc.Args {
		args = append(args, ex.get(fr, a))
	}
	if cc.IsInvoke() {
		ex.end("unsupported", "interface invoke")
	}
	switch f := cc.Value.(type) {
	case *ssa.Builtin:
		return ex.builtin(x, f, args)
	case *ssa.Function:
		return ex.call(f, args, nil)
	}
	fv := ex.get(fr, cc.Value).(*FuncV)
	if fv.fn == nil {
		ex.rtpanic(x, "nil func call")
	}
	return ex.call(fv.fn, args, fv.env)
}

func (ex *Exec) builtin(x *ssa.Call, b *ssa.Builtin, args []Val) Val {
	switch b.Name() {
	case "len":
		switch a := args[0].(type) {
		case *StrV:
			return BVC(64, uint64(len(a.b)))
		case *SliceV:
			return BVC(64, uint64(a.len))
		case *MapV:
			return BVC(64, uint64(len(a.m)))
		}
	case "append":
		s := args[0].(*SliceV)
		var add []Val
		switch t := args[1].(type) {
		case *SliceV:
			for i := 0; i < t.len; i++ {
				add = append(add, load(t.arr[t.off+i]))
			}
		case *StrV:
			for _, b := range t.b {
				add = append(add, b)
			}
		}
		if s.len+len(add) <= s.cap && s.off+s.cap <= len(s.arr) && len(add) > 0 {
			// room in the backing array: Go appends in place (this is how a shared package-level buffer gets written)
			for i, v := range add {
				tgt := s.arr[s.off+s.len+i]
				if ex.initDone && tgt.glb != "" {
					ex.sharedWrite("append into the backing array of shared slice reachable from package variable " + tgt.glb + " at " + ex.pos(x.Pos()) + " in " + x.Parent().Name())
				}
				ex.journal(tgt)
				store(tgt, v)
			}
			return &SliceV{arr: s.arr, off: s.off, len: s.len + len(add), cap: s.cap}
		}
		if len(add) == 0 {
			return s
		}
		n := &SliceV{}
		for i := 0; i < s.len; i++ {
			n.arr = append(n.arr, objFromVal(load(s.arr[s.off+i])))
		}
		for _, v := range add {
			n.arr = append(n.arr, objFromVal(v))
		}
		n.len, n.cap = len(n.arr), len(n.arr)
		return n
	}
	switch b.Name() {
	case "recover":
		if n := len(ex.inflight); n > 0 && ex.inflight[n-1] {
			ex.inflight[n-1] = false
			return strOf("recovered run-time panic")
		}
		return nil
	case "copy":
		dst := args[0].(*SliceV)
		var src []Val
		switch t := args[1].(type) {
		case *SliceV:
			for i := 0; i < t.len; i++ {
				src = append(src, load(t.arr[t.off+i]))
			}
		case *StrV:
			for _, bb := range t.b {
				src = append(src, bb)
			}
		}
		k := len(src)
		if dst.len < k {
			k = dst.len
		}
		for i := 0; i < k; i++ {
			tgt := dst.arr[dst.off+i]
			if ex.initDone && tgt.glb != "" {
				ex.sharedWrite("copy into shared slice reachable from package variable " + tgt.glb + " at " + ex.pos(x.Pos()) + " in " + x.Parent().Name())
			}
			ex.journal(tgt)
			store(tgt, src[i])
		}
		ex.cost += k
		return BVC(64, uint64(k))
	case "cap":
		if sv, ok := args[0].(*SliceV); ok {
			return BVC(64, uint64(sv.cap))
		}
	case "min", "max":
		r := args[0].(*Term)
		for _, o := range args[1:] {
			t := o.(*Term)
			_, signed, _ := bw(x.Type())
			op := "bvult"
			if signed {
				op = "bvslt"
			}
			var c *Term
			if b.Name() == "min" {
				c = Cmp(op, t, r)
			} else {
				c = Cmp(op, r, t)
			}
			r = Ite(c, t, r)
		}
		return r
	}
	ex.end("unsupported", "builtin "+b.Name())
	return nil
}

// journal records the current content of a shared object so that it can be restored when the path ends
// (paths must not see each other's writes to package-level state).
func (ex *Exec) journal(o *Obj) {
	if !ex.initDone || o.glb == "" {
		return
	}
	old := load(o)
	ex.undo = append(ex.undo, func() { store(o, old) })
}

func (ex *Exec) rollback() {
	for i := len(ex.undo) - 1; i >= 0; i-- {
		ex.undo[i]()
	}
	ex.undo = nil
	ex.pools = nil
}

// ---------- operators

func (ex *Exec) binop(x *ssa.BinOp, a, b Val) Val {
	if (a == nil || b == nil) && (x.Op == token.EQL || x.Op == token.NEQ) {
		// interface value compared with nil
		eq := a == nil && b == nil
		if x.Op == token.NEQ {
			eq = !eq
		}
		return BoolC(eq)
	}
	if sa, ok := a.(*StrV); ok {
		sb := b.(*StrV)
		switch x.Op {
		case token.ADD:
			ex.cost += len(sa.b) + len(sb.b)
			return &StrV{b: append(append([]*Term(nil), sa.b...), sb.b...)}
		case token.EQL, token.NEQ:
			eq := ex.strEq(sa, sb)
			if x.Op == token.NEQ {
				eq = Not(eq)
			}
			return eq
		}
		switch x.Op {
		case token.LSS:
			return ex.strLess(sa, sb, 0)
		case token.GTR:
			return ex.strLess(sb, sa, 0)
		case token.LEQ:
			return Not(ex.strLess(sb, sa, 0))
		case token.GEQ:
			return Not(ex.strLess(sa, sb, 0))
		}
		ex.end("unsupported", "string op "+x.Op.String())
	}
	ta, okA := a.(*Term)
	tb, okB := b.(*Term)
	if !okA || !okB {
		// pointer/func comparisons
		switch x.Op {
		case token.EQL, token.NEQ:
			var eq bool
			switch pa := a.(type) {
			case *PtrV:
				eq = pa.o == b.(*PtrV).o
			case *FuncV:
				eq = pa.fn == b.(*FuncV).fn
			case nil:
				eq = b == nil
			default:
				ex.end("unsupported", fmt.Sprintf("compare %T", a))
			}
			if x.Op == token.NEQ {
				eq = !eq
			}
			return BoolC(eq)
		}
		ex.end("unsupported", fmt.Sprintf("binop %s on %T", x.Op, a))
	}
	w, signed, _ := bw(x.X.Type())
	if w == 0 { // bool
		switch x.Op {
		case token.EQL:
			return Or(And(ta, tb), And(Not(ta), Not(tb)))
		case token.NEQ:
			return Or(And(ta, Not(tb)), And(Not(ta), tb))
		}
		ex.end("unsupported", "bool op "+x.Op.String())
	}
	pick := func(s, u string) string {
		if signed {
			return s
		}
		return u
	}
	switch x.Op {
	case token.ADD:
		return BVBin("bvadd", ta, tb)
	case token.SUB:
		return BVBin("bvsub", ta, tb)
	case token.MUL:
		return BVBin("bvmul", ta, tb)
	case token.AND:
		return BVBin("bvand", ta, tb)
	case token.OR:
		return BVBin("bvor", ta, tb)
	case token.XOR:
		return BVBin("bvxor", ta, tb)
	case token.AND_NOT:
		return BVBin("bvand", ta, BVBin("bvxor", tb, BVC(w, ^uint64(0))))
	case token.QUO, token.REM:
		if ex.branch(Cmp("=", tb, BVC(w, 0))) {
			ex.rtpanic(x, "division by zero")
		}
		if x.Op == token.QUO {
			return BVBin(pick("bvsdiv", "bvudiv"), ta, tb)
		}
		return BVBin(pick("bvsrem", "bvurem"), ta, tb)
	case token.SHL:
		return BVBin("bvshl", ta, ZExt(tb, w))
	case token.SHR:
		return BVBin(pick("bvashr", "bvlshr"), ta, ZExt(tb, w))
	case token.EQL:
		return Cmp("=", ta, tb)
	case token.NEQ:
		return Not(Cmp("=", ta, tb))
	case token.LSS:
		return Cmp(pick("bvslt", "bvult"), ta, tb)
	case token.LEQ:
		return Cmp(pick("bvsle", "bvule"), ta, tb)
	case token.GTR:
		return Cmp(pick("bvsgt", "bvugt"), ta, tb)
	case token.GEQ:
		return Cmp(pick("bvsge", "bvuge"), ta, tb)
	}
	ex.end("unsupported", "binop "+x.Op.String())
	return nil
}

func (ex *Exec) strEq(a, b *StrV) *Term {
	if len(a.b) != len(b.b) {
		return tFalse
	}
	ex.cost += len(a.b)
	var cs []*Term
	for i := range a.b {
		cs = append(cs, Cmp("=", a.b[i], b.b[i]))
	}
	return And(cs...)
}

func (ex *Exec) unop(fr *frame, x *ssa.UnOp) Val {
	v := ex.get(fr, x.X)
	switch x.Op {
	case token.MUL:
		switch p := v.(type) {
		case *PtrV:
			if p.o == nil {
				ex.rtpanic(x, "nil dereference")
			}
			return load(p.o)
		case *SymElem:
			return ex.loadSym(p)
		}
	case token.NOT:
		return Not(v.(*Term))
	case token.SUB:
		t := v.(*Term)
		return BVBin("bvsub", BVC(t.w, 0), t)
	case token.XOR:
		t := v.(*Term)
		return BVBin("bvxor", t, BVC(t.w, ^uint64(0)))
	}
	ex.end("unsupported", "unop "+x.Op.String())
	return nil
}

// loadSym: load from a table at symbolic index, forking by distinct element value.
func (ex *Exec) loadSym(p *SymElem) Val {
	type grp struct {
		v    Val
		idxs []int
	}
	var groups []*grp
	key := func(v Val) string {
		switch t := v.(type) {
		case *Term:
			if !t.IsConst() {
				ex.end("unsupported", "symbolic table element")
			}
			return t.String()
		case *FuncV:
			if t.fn == nil {
				return "<nil func>"
			}
			return t.fn.String()
		}
		return ""
	}
	if len(p.elems) > 0 {
		switch load(p.elems[0]).(type) {
		case *Term, *FuncV:
		default:
			// aggregate or string elements: concretise the index
			i := int(ex.concretize(p.idx))
			return load(p.elems[i])
		}
	}
	seen := map[string]*grp{}
	for i, o := range p.elems {
		v := load(o)
		k := key(v)
		g := seen[k]
		if g == nil {
			g = &grp{v: v}
			seen[k] = g
			groups = append(groups, g)
		}
		g.idxs = append(g.idxs, i)
	}
	if t0, ok := groups[0].v.(*Term); ok {
		// integer table: select as an ite-chain term, no forking
		res := t0
		for _, g := range groups[1:] {
			res = Ite(inSet(p.idx, g.idxs), g.v.(*Term), res)
		}
		return res
	}
	i, _ := ex.forkE(func() ([]*Term, []uint64) {
		var alts []*Term
		for _, g := range groups {
			alts = append(alts, inSet(p.idx, g.idxs))
		}
		return alts, nil
	}, true)
	return groups[i].v
}

// inSet builds idx ∈ set as a disjunction of ranges.
func inSet(idx *Term, set []int) *Term {
	sort.Ints(set)
	var ors []*Term
	for i := 0; i < len(set); {
		j := i
		for j+1 < len(set) && set[j+1] == set[j]+1 {
			j++
		}
		lo, hi := BVC(idx.w, uint64(set[i])), BVC(idx.w, uint64(set[j]))
		if i == j {
			ors = append(ors, Cmp("=", idx, lo))
		} else {
			ors = append(ors, And(Cmp("bvuge", idx, lo), Cmp("bvule", idx, hi)))
		}
		i = j + 1
	}
	return Or(ors...)
}

func (ex *Exec) convert(x *ssa.Convert, v Val) Val {
	from, to := x.X.Type(), x.Type()
	if isString(to) {
		switch s := v.(type) {
		case *StrV:
			return s
		case *SliceV:
			r := &StrV{}
			for i := 0; i < s.len; i++ {
				r.b = append(r.b, load(s.arr[s.off+i]).(*Term))
			}
			return r
		case *Term: // integer -> string: UTF-8 encode
			if _, _, ok := bw(from); ok {
				_, signed, _ := bw(from)
				var r *Term
				if signed {
					r = SExt(s, 32)
				} else {
					r = ZExt(s, 32)
				}
				if ex.branch(Cmp("bvult", r, BVC(32, 0x80))) {
					return &StrV{b: []*Term{Extract(r, 8)}}
				}
				if ex.branch(Cmp("bvult", r, BVC(32, 0x800))) {
					b0 := BVBin("bvor", BVC(8, 0xC0), Extract(BVBin("bvlshr", r, BVC(32, 6)), 8))
					b1 := BVBin("bvor", BVC(8, 0x80), BVBin("bvand", Extract(r, 8), BVC(8, 0x3F)))
					return &StrV{b: []*Term{b0, b1}}
				}
				ex.end("unsupported", "rune>=0x800 to string")
			}
		}
	}
	if isString(from) {
		if _, ok := to.Underlying().(*types.Slice); ok {
			s := v.(*StrV)
			r := &SliceV{len: len(s.b), cap: len(s.b)}
			for _, b := range s.b {
				r.arr = append(r.arr, &Obj{v: b})
			}
			return r
		}
	}
	wf, sf, ok1 := bw(from)
	wt, _, ok2 := bw(to)
	if ok1 && ok2 && wf > 0 && wt > 0 {
		t := v.(*Term)
		if wt <= wf {
			return Extract(t, wt)
		}
		if sf {
			return SExt(t, wt)
		}
		return ZExt(t, wt)
	}
	ex.end("unsupported", "convert "+from.String()+" -> "+to.String())
	return nil
}

func (ex *Exec) idxConc(in ssa.Instruction, idx *Term, n int) int {
	// bounds check (symbolic-aware), then concretize
	if idx.IsConst() {
		i := sext(idx.c, idx.w)
		if i < 0 || i >= int64(n) {
			ex.rtpanic(in, fmt.Sprintf("index out of range [%d] with length %d", i, n))
		}
		return int(i)
	}
	inb := Cmp("bvult", ZExt(idx, 64), BVC(64, uint64(n)))
	if idx.w == 64 {
		inb = Cmp("bvult", idx, BVC(64, uint64(n)))
	}
	if !ex.branch(inb) {
		ex.rtpanic(in, fmt.Sprintf("index out of range [symbolic] with length %d", n))
	}
	return int(ex.concretize(idx))
}

func (ex *Exec) indexAddr(fr *frame, x *ssa.IndexAddr) Val {
	idx := ex.get(fr, x.Index).(*Term)
	var elems []*Obj
	switch b := ex.get(fr, x.X).(type) {
	case *PtrV:
		if b.o == nil {
			ex.rtpanic(x, "nil dereference")
		}
		elems = b.o.sub
	case *SliceV:
		elems = b.arr[b.off : b.off+b.len]
	}
	if !idx.IsConst() && len(elems) > 0 && elems[0].ro {
		inb := Cmp("bvult", ZExt(idx, 64), BVC(64, uint64(len(elems))))
		if !ex.branch(inb) {
			ex.rtpanic(x, fmt.Sprintf("index out of range [symbolic] with length %d", len(elems)))
		}
		return &SymElem{elems: elems, idx: idx}
	}
	i := ex.idxConc(x, idx, len(elems))
	return &PtrV{elems[i]}
}

func (ex *Exec) index(fr *frame, x *ssa.Index) Val {
	idx := ex.get(fr, x.Index).(*Term)
	switch b := ex.get(fr, x.X).(type) {
	case *StrV:
		i := ex.idxConc(x, idx, len(b.b))
		ex.cost++
		return b.b[i]
	case *ArrayV:
		i := ex.idxConc(x, idx, len(b.e))
		return b.e[i]
	}
	ex.end("unsupported", "index")
	return nil
}

func (ex *Exec) slice(fr *frame, x *ssa.Slice) Val {
	gi := func(v ssa.Value, def int) int {
		if v == nil {
			return def
		}
		return int(int64(ex.concretize(ex.get(fr, v).(*Term))))
	}
	switch b := ex.get(fr, x.X).(type) {
	case *StrV:
		lo, hi := gi(x.Low, 0), gi(x.High, len(b.b))
		if lo < 0 || hi < lo || hi > len(b.b) {
			ex.rtpanic(x, fmt.Sprintf("slice bounds out of range [%d:%d] with length %d", lo, hi, len(b.b)))
		}
		return &StrV{b: b.b[lo:hi]}
	case *SliceV:
		lo, hi := gi(x.Low, 0), gi(x.High, b.len)
		if lo < 0 || hi < lo || hi > b.cap {
			ex.rtpanic(x, fmt.Sprintf("slice bounds out of range [%d:%d] with capacity %d", lo, hi, b.cap))
		}
		return &SliceV{arr: b.arr, off: b.off + lo, len: hi - lo, cap: b.cap - lo}
	case *PtrV:
		n := len(b.o.sub)
		lo, hi := gi(x.Low, 0), gi(x.High, n)
		if lo < 0 || hi < lo || hi > n {
			ex.rtpanic(x, "slice bounds out of range (array)")
		}
		return &SliceV{arr: b.o.sub, off: lo, len: hi - lo, cap: n - lo}
	}
	ex.end("unsupported", "slice")
	return nil
}

func (m *MapV) index() {
	if m.byLen != nil {
		return
	}
	m.byLen = map[int][]string{}
	for k := range m.m {
		m.byLen[len(k)] = append(m.byLen[len(k)], k)
	}
	for _, ks := range m.byLen {
		sort.Strings(ks)
	}
}

func (ex *Exec) lookup(fr *frame, x *ssa.Lookup) Val {
	m, ok := ex.get(fr, x.X).(*MapV)
	if !ok {
		ex.end("unsupported", "lookup on non-map")
	}
	zeroV := zero(x.X.Type().Underlying().(*types.Map).Elem())
	if kt, isTerm := ex.get(fr, x.Index).(*Term); isTerm {
		// integer-keyed map: only concrete keys are supported
		if !kt.IsConst() {
			return ex.lookupIntSym(x, m, kt, zeroV)
		}
		if m != nil {
			if v, ok := m.m[fmt.Sprintf("\x00int:%d:%d", kt.w, kt.c)]; ok {
				if x.CommaOk {
					return TupleV{v, tTrue}
				}
				return v
			}
		}
		if x.CommaOk {
			return TupleV{zeroV, tFalse}
		}
		return zeroV
	}
	key := ex.get(fr, x.Index).(*StrV)
	ret := func(v Val, ok bool) Val {
		if x.CommaOk {
			return TupleV{v, BoolC(ok)}
		}
		return v
	}
	ex.cost += len(key.b)
	if m == nil {
		return ret(zeroV, false)
	}
	if ks, ok := key.concrete(); ok {
		if v, ok := m.m[ks]; ok {
			return ret(v, true)
		}
		return ret(zeroV, false)
	}
	m.index()
	// group candidates by value
	type grp struct {
		v    Val
		cond []*Term
	}
	var groups []*grp
	byv := map[string]*grp{}
	for _, k := range m.byLen[len(key.b)] {
		c := ex.strEqConst(key, k)
		if c.IsConst() && !c.BoolVal() {
			continue
		}
		v := m.m[k]
		id := v.(*Term).String()
		g := byv[id]
		if g == nil {
			g = &grp{v: v}
			byv[id] = g
			groups = append(groups, g)
		}
		g.cond = append(g.cond, c)
	}
	if len(groups) == 0 {
		return ret(zeroV, false)
	}
	if ex.lazyLookup {
		res := zeroV.(*Term)
		var all []*Term
		for _, g := range groups {
			o := Or(g.cond...)
			res = Ite(o, g.v.(*Term), res)
			all = append(all, o)
		}
		if x.CommaOk {
			return TupleV{res, Or(all...)}
		}
		return res
	}
	i, _ := ex.forkE(func() ([]*Term, []uint64) {
		var alts []*Term
		var all []*Term
		for _, g := range groups {
			o := Or(g.cond...)
			alts = append(alts, o)
			all = append(all, o)
		}
		alts = append(alts, Not(Or(all...)))
		return alts, nil
	}, true)
	if i == len(groups) {
		return ret(zeroV, false)
	}
	return ret(groups[i].v, true)
}

func (ex *Exec) strEqConst(a *StrV, k string) *Term {
	if len(a.b) != len(k) {
		return tFalse
	}
	var csBuf [32]*Term
	cs := csBuf[:0]
	for i := range a.b {
		c := Cmp("=", a.b[i], BVC(8, uint64(k[i])))
		if c.IsConst() {
			if !c.BoolVal() {
				return tFalse
			}
			continue
		}
		// prefilter by the byte domains of the current path: a key byte no value of the variable can produce
		if ex.useDom && c.nv == 1 && c.v1.w == 8 {
			if d := ex.dom.get(c.v1); d != fullSet {
				x := d.and(setOf(c))
				if x.empty() {
					return tFalse
				}
			} else if s := setOf(c); s.empty() {
				return tFalse
			}
		}
		cs = append(cs, c)
	}
	return And(cs...)
}

var debugTrace = os.Getenv("SYMGO_TRACE") != ""

// objFromVal builds a fresh object tree holding (a copy of) the value v.
func objFromVal(v Val) *Obj {
	switch x := v.(type) {
	case *StructV:
		o := &Obj{agg: 1}
		for _, f := range x.f {
			o.sub = append(o.sub, objFromVal(f))
		}
		return o
	case *ArrayV:
		o := &Obj{agg: 2}
		for _, e := range x.e {
			o.sub = append(o.sub, objFromVal(e))
		}
		return o
	case *BuilderV:
		return &Obj{v: &BuilderV{b: append([]*Term(nil), x.b...)}}
	}
	return &Obj{v: v}
}

var slotCache = map[*ssa.Function]map[ssa.Value]int{}

// slotsOf numbers the parameters, free variables and value-defining instructions of fn (frame environments are slices).
func slotsOf(fn *ssa.Function) map[ssa.Value]int {
	if m, ok := slotCache[fn]; ok {
		return m
	}
	m := map[ssa.Value]int{}
	for _, p := range fn.Params {
		m[p] = len(m)
	}
	for _, fv := range fn.FreeVars {
		m[fv] = len(m)
	}
	for _, b := range fn.Blocks {
		for _, in := range b.Instrs {
			if v, ok := in.(ssa.Value); ok {
				m[v] = len(m)
			}
		}
	}
	slotCache[fn] = m
	return m
}

// paranoidCheck: with -paranoid every verdict of the byte-domain procedure is re-decided by z3 under the current path condition.
func (ex *Exec) paranoidCheck(a *Term, feasible bool) {
	if !ex.paranoid || a.IsConst() {
		return
	}
	ex.paranoidN++
	ex.sol.Push()
	ex.sol.Assert(a)
	r := ex.sol.Check()
	ex.sol.Pop()
	if (r == "sat") != feasible {
		ex.paranoidBad++
	}
}

var modelled = map[string]bool{
	"strings.IndexByte": true, "bytes.IndexByte": true, "strings.Index": true, "strings.Contains": true, "strings.HasPrefix": true,
	"strings.HasSuffix": true, "strings.ToUpper": true, "strings.ToLower": true, "strings.ReplaceAll": true, "strings.TrimLeftFunc": true,
	"(*strings.Builder).WriteByte": true, "(*strings.Builder).WriteString": true, "(*strings.Builder).Grow": true, "(*strings.Builder).String": true,
	"(*sync.Mutex).Lock": true, "(*sync.Mutex).Unlock": true, "(*sync.RWMutex).Lock": true, "(*sync.RWMutex).Unlock": true,
	"(*sync.RWMutex).RLock": true, "(*sync.RWMutex).RUnlock": true, "(*sync.Mutex).TryLock": true, "(*sync.Once).Do": true,
	"(*sync.Pool).Put": true, "(*sync.Pool).Get": true,
}

// strLess: lexicographic a[i:] < b[i:] as a term (lengths are concrete).
func (ex *Exec) strLess(a, b *StrV, i int) *Term {
	if i >= len(b.b) {
		return tFalse
	}
	if i >= len(a.b) {
		return tTrue
	}
	ex.cost++
	return Or(Cmp("bvult", a.b[i], b.b[i]), And(Cmp("=", a.b[i], b.b[i]), ex.strLess(a, b, i+1)))
}

// lookupIntSym: look-up in an integer-keyed map with a symbolic key: fork on the distinct result values
// (condition: the key equals one of the keys carrying that value), plus "absent".
func (ex *Exec) lookupIntSym(x *ssa.Lookup, m *MapV, key *Term, zeroV Val) Val {
	ret := func(v Val, ok bool) Val {
		if x.CommaOk {
			return TupleV{v, BoolC(ok)}
		}
		return v
	}
	if m == nil || len(m.m) == 0 {
		return ret(zeroV, false)
	}
	if len(m.m) > 20000 {
		ex.end("unsupported", "symbolic look-up in a very large integer-keyed map")
	}
	type grp struct {
		v    Val
		cond []*Term
	}
	var groups []*grp
	byv := map[string]*grp{}
	prefix := fmt.Sprintf("\x00int:%d:", key.w)
	ks := make([]string, 0, len(m.m))
	for k := range m.m {
		ks = append(ks, k)
	}
	sort.Strings(ks)
	for _, k := range ks {
		if !strings.HasPrefix(k, prefix) {
			continue
		}
		var c uint64
		fmt.Sscanf(k[len(prefix):], "%d", &c)
		v := m.m[k]
		t, isT := v.(*Term)
		if !isT {
			ex.end("unsupported", "integer-keyed map with non-scalar values")
		}
		id := t.String()
		g := byv[id]
		if g == nil {
			g = &grp{v: v}
			byv[id] = g
			groups = append(groups, g)
		}
		g.cond = append(g.cond, Cmp("=", key, BVC(key.w, c)))
	}
	i, _ := ex.forkE(func() ([]*Term, []uint64) {
		var alts, all []*Term
		for _, g := range groups {
			o := Or(g.cond...)
			alts = append(alts, o)
			all = append(all, o)
		}
		alts = append(alts, Not(Or(all...)))
		return alts, nil
	}, true)
	if i == len(groups) {
		return ret(zeroV, false)
	}
	return ret(groups[i].v, true)
}
