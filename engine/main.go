package main

// symgo: symbolic execution of Go SSA (golang.org/x/tools/go/ssa) of /repo's current working tree,
// path conditions decided by an SMT solver (z3 -in). See /verif/DESIGN.md section 3.
//
//   symgo worker -repo /repo -overlay a.go,b.go      reads one job (JSON) per stdin line, writes one result per line
//   symgo run    -repo /repo -overlay a.go -entry H -args 1,2 [-safety] ...   single job, human-readable

import (
	"bufio"
	"encoding/json"
	"flag"
	"fmt"
	"go/types"
	"os"
	"path/filepath"
	"runtime/debug"
	"runtime/pprof"
	"sort"
	"strconv"
	"strings"
	"time"

	"golang.org/x/tools/go/packages"
	"golang.org/x/tools/go/ssa"
	"golang.org/x/tools/go/ssa/ssautil"
)

type Job struct {
	ID           string  `json:"id"`
	Entry        string  `json:"entry"`
	Args         []int64 `json:"args"`
	Safety       bool    `json:"safety"`
	Frame        bool    `json:"frame"`
	Part         []int   `json:"part"`
	MaxPaths     int     `json:"maxpaths"`
	TimeoutS     float64 `json:"timeout_s"`
	WitnessEvery int     `json:"witness_every"`
	MaxWitness   int     `json:"max_witness"`
	NoCone       bool    `json:"nocone"`
	NoDom        bool    `json:"nodom"`
	Lazy         bool    `json:"lazy"`
	MaxSteps     int     `json:"maxsteps"`
	Paranoid     bool    `json:"paranoid"`
}

type InputVal struct {
	Name string `json:"name"`
	W    int    `json:"w"`
	Val  uint64 `json:"val"`
}

type Violation struct {
	Kind   string     `json:"kind"`
	Msg    string     `json:"msg"`
	Count  int        `json:"count"`
	Inputs []InputVal `json:"inputs"`
	Text   string     `json:"text"`
	PC     string     `json:"pc,omitempty"`
	Obs    [][2]string `json:"obs,omitempty"`
}

type Witness struct {
	End    string     `json:"end"`
	Inputs []InputVal `json:"inputs"`
	Obs    [][2]string `json:"obs"`
	Text   string     `json:"text"`
	PC     string     `json:"pc,omitempty"`
	Approx bool       `json:"approx,omitempty"`
}

type Result struct {
	ID          string         `json:"id"`
	Entry       string         `json:"entry"`
	Args        []int64        `json:"args"`
	Paths       int            `json:"paths"`
	Ends        map[string]int `json:"ends"`
	Forks       int            `json:"forks"`
	Queries     int            `json:"queries"`
	Sat         int            `json:"sat"`
	Unsat       int            `json:"unsat"`
	SolverS     float64        `json:"solver_s"`
	Fast        int            `json:"fast"`
	Slow        int            `json:"slow"`
	Implied     int            `json:"implied"`
	Funcs       []string       `json:"funcs"`
	MaxCost     int            `json:"max_cost"`
	MaxCostIn   string         `json:"max_cost_input,omitempty"`
	MaxDepth    int            `json:"max_depth"`
	Labels      map[string]int `json:"labels"`
	Violations  []*Violation   `json:"violations"`
	Unsupported map[string]int `json:"unsupported"`
	Excluded    map[string]int `json:"excluded"`
	Writes      map[string]int `json:"shared_writes"`
	Witnesses   []Witness      `json:"witnesses"`
	EndUnsat    int            `json:"endcheck_unsat"`
	ParanoidBad int            `json:"paranoid_mismatch"`
	ParanoidN   int            `json:"paranoid_checked"`
	Timeout     bool           `json:"timeout"`
	Truncated   bool           `json:"truncated"`
	Error       string         `json:"error,omitempty"`
	WallS       float64        `json:"wall_s"`
	TermPool    int            `json:"term_pool"`
	ForkAt      map[string]int `json:"fork_at,omitempty"`
}

func markRO(o *Obj, name string, seen map[*Obj]bool) {
	if o == nil || seen[o] {
		return
	}
	seen[o] = true
	o.ro = true
	o.glb = name
	for _, s := range o.sub {
		markRO(s, name, seen)
	}
	switch v := o.v.(type) {
	case *SliceV:
		for _, e := range v.arr {
			markRO(e, name, seen)
		}
	case *PtrV:
		markRO(v.o, name, seen)
	case *MapV:
		if v != nil {
			v.shared = true
		}
	}
}

func (ex *Exec) runOnce(f func()) (pe pathEnd) {
	defer func() {
		if r := recover(); r != nil {
			switch p := r.(type) {
			case pathEnd:
				pe = p
				return
			case solverTrouble:
				pe = pathEnd{"solver", p.msg}
				return
			}
			panic(r)
		}
	}()
	f()
	return pathEnd{"done", ""}
}

type World struct {
	prog *ssa.Program
	pkg  *ssa.Package
	sol  *Solver
}

func loadWorld(repo string, overlays []string, solverBin string) (*World, error) {
	ov := map[string][]byte{}
	for _, f := range overlays {
		if f == "" {
			continue
		}
		src, err := os.ReadFile(f)
		if err != nil {
			return nil, err
		}
		ov[filepath.Join(repo, "zz_verif_"+filepath.Base(f))] = src
	}
	cfg := &packages.Config{Mode: packages.LoadAllSyntax, Dir: repo, Overlay: ov, BuildFlags: []string{"-tags=verif"}}
	pkgs, err := packages.Load(cfg, ".")
	if err != nil {
		return nil, err
	}
	var errs []string
	packages.Visit(pkgs, nil, func(p *packages.Package) {
		for _, e := range p.Errors {
			errs = append(errs, e.Error())
		}
	})
	if len(errs) > 0 {
		return nil, fmt.Errorf("load errors: %s", strings.Join(errs, "; "))
	}
	prog, spkgs := ssautil.AllPackages(pkgs, ssa.InstantiateGenerics)
	prog.Build()
	return &World{prog: prog, pkg: spkgs[0], sol: NewSolver(solverBin, "-in")}, nil
}

func (w *World) newExec(job *Job) (*Exec, error) {
	resetPool()
	w.sol.Reset()
	ex := &Exec{prog: w.prog, pkg: w.pkg, sol: w.sol, globals: map[*ssa.Global]*Obj{}, maxSteps: 200000000}
	ex.funcs = map[string]bool{}
	ex.forkAt = map[string]int{}
	ex.toUpperMemo = map[string]*StrV{}
	ex.known = map[*Term]bool{}
	ex.partLo, ex.partHi = 0, -1
	for _, m := range w.pkg.Members {
		if g, ok := m.(*ssa.Global); ok {
			ex.globals[g] = newObj(g.Type().Underlying().(*types.Pointer).Elem())
		}
	}
	ex.useDom = true
	ex.useCone = true
	ex.dom = newDom()
	pe := ex.runOnce(func() { ex.call(w.pkg.Func("init"), nil, nil) })
	if pe.kind != "done" {
		return nil, fmt.Errorf("package init failed in the interpreter: %s %s", pe.kind, pe.msg)
	}
	seen := map[*Obj]bool{}
	for g, o := range ex.globals {
		markRO(o, g.Name(), seen)
	}
	ex.initDone = true
	ex.funcs = map[string]bool{}
	ex.maxSteps = 2000000
	if job != nil {
		ex.useDom = !job.NoDom
		ex.useCone = !job.NoCone
		ex.safety = job.Safety
		ex.lazyLookup = job.Lazy
		ex.frameCheck = job.Frame
		ex.paranoid = job.Paranoid
		if len(job.Part) == 2 {
			ex.partLo, ex.partHi = job.Part[0], job.Part[1]
		}
		if job.MaxSteps > 0 {
			ex.maxSteps = job.MaxSteps
		}
	}
	return ex, nil
}

func inputText(ins []InputVal) string {
	// renders the string inputs (inK_i) as quoted Go strings, others as name=value
	var parts []string
	var cur []byte
	curID := ""
	flush := func() {
		if curID != "" {
			parts = append(parts, fmt.Sprintf("%q", string(cur)))
		}
		cur, curID = nil, ""
	}
	for _, iv := range ins {
		if strings.HasPrefix(iv.Name, "in") && strings.Contains(iv.Name, "_") {
			id := iv.Name[:strings.Index(iv.Name, "_")]
			if id != curID {
				flush()
				curID = id
			}
			cur = append(cur, byte(iv.Val))
			continue
		}
		flush()
		if iv.W == 8 {
			parts = append(parts, fmt.Sprintf("%s=%q", iv.Name, string([]byte{byte(iv.Val)})))
		} else {
			parts = append(parts, fmt.Sprintf("%s=%d", iv.Name, int64(iv.Val)))
		}
	}
	flush()
	return strings.Join(parts, " ")
}

func (ex *Exec) model() []InputVal {
	vals := ex.sol.Values(ex.inputs)
	out := make([]InputVal, len(vals))
	for i, v := range vals {
		out[i] = InputVal{ex.inputs[i].name, ex.inputs[i].w, v}
	}
	return out
}

func (ex *Exec) evalObs() [][2]string {
	var out [][2]string
	for _, o := range ex.obs {
		switch v := o.v.(type) {
		case *Term:
			var x uint64
			if v.IsConst() {
				if v.w == 0 {
					if v.BoolVal() {
						x = 1
					}
				} else {
					x = v.c
				}
			} else {
				x = ex.sol.Values([]*Term{v})[0]
			}
			if v.w == 0 {
				out = append(out, [2]string{o.label, strconv.FormatBool(x == 1)})
			} else {
				out = append(out, [2]string{o.label, strconv.FormatInt(sext(x, v.w), 10)})
			}
		case *StrV:
			b := make([]byte, len(v.b))
			var sym []*Term
			var symI []int
			for i, t := range v.b {
				if t.IsConst() {
					b[i] = byte(t.c)
				} else {
					sym = append(sym, t)
					symI = append(symI, i)
				}
			}
			if len(sym) > 0 {
				vals := ex.sol.Values(sym)
				for k, i := range symI {
					b[i] = byte(vals[k])
				}
			}
			out = append(out, [2]string{o.label, fmt.Sprintf("%x", b)})
		default:
			out = append(out, [2]string{o.label, fmt.Sprintf("%T", v)})
		}
	}
	return out
}

func (ex *Exec) pcString(limit int) string {
	var parts []string
	for _, d := range ex.decisions {
		a := d.alts[d.cur]
		if a.IsConst() {
			continue
		}
		parts = append(parts, a.String())
	}
	s := strings.Join(parts, " ∧ ")
	if len(s) > limit {
		s = s[:limit] + "…"
	}
	return s
}

func (w *World) runJob(job *Job) (res *Result) {
	t0 := time.Now()
	res = &Result{ID: job.ID, Entry: job.Entry, Args: job.Args, Ends: map[string]int{}, Labels: map[string]int{},
		Unsupported: map[string]int{}, Excluded: map[string]int{}, Writes: map[string]int{}}
	defer func() {
		if r := recover(); r != nil {
			res.Error = fmt.Sprintf("engine panic: %v\n%s", r, debug.Stack())
		}
		res.WallS = time.Since(t0).Seconds()
	}()
	ex, err := w.newExec(job)
	if err != nil {
		res.Error = err.Error()
		return
	}
	fn := w.pkg.Func(job.Entry)
	if fn == nil {
		res.Error = "no such entry function: " + job.Entry
		return
	}
	if len(fn.Params) != len(job.Args) {
		res.Error = fmt.Sprintf("entry %s takes %d args, job gives %d", job.Entry, len(fn.Params), len(job.Args))
		return
	}
	var args []Val
	for _, a := range job.Args {
		args = append(args, BVC(64, uint64(a)))
	}
	sol := w.sol
	q0, s0, u0, st0 := sol.Queries, sol.SatN, sol.UnsatN, sol.Time
	viol := map[string]*Violation{}
	witnessEvery := job.WitnessEvery
	maxW := job.MaxWitness
	if maxW == 0 {
		maxW = 50
	}
	for {
		ex.dpos, ex.nvars, ex.inputs, ex.steps, ex.cost = 0, 0, nil, 0, 0
		ex.depth, ex.maxDepth, ex.obs, ex.labels, ex.pathExcl, ex.writes = 0, 0, nil, nil, false, nil
		ex.toUpperMemo = map[string]*StrV{}
		ex.known = map[*Term]bool{}
		ex.inflight = nil
		ex.dom = newDom()
		pe := ex.runOnce(func() { ex.call(fn, args, nil) })
		ex.rollback()
		res.Paths++
		res.Ends[pe.kind]++
		feasible := pe.kind != "infeasible" && pe.kind != "solver"
		if feasible {
			ok := false
			func() {
				defer func() {
					if r := recover(); r != nil {
						if st, isT := r.(solverTrouble); isT {
							pe = pathEnd{"solver", st.msg}
							res.Ends["solver"]++
							return
						}
						panic(r)
					}
				}()
				ok = sol.Check() == "sat"
			}()
			if pe.kind == "solver" {
				feasible = false
			} else if !ok {
				res.EndUnsat++
				feasible = false
			}
		}
		if feasible {
			for _, l := range ex.labels {
				res.Labels[l]++
			}
			for _, wmsg := range ex.writes {
				res.Writes[wmsg]++
			}
			if ex.maxDepth > res.MaxDepth {
				res.MaxDepth = ex.maxDepth
			}
			if ex.cost > res.MaxCost {
				res.MaxCost = ex.cost
				res.MaxCostIn = inputText(ex.model())
			}
			switch pe.kind {
			case "panic", "violation":
				key := pe.kind + ": " + pe.msg
				v := viol[key]
				if v == nil {
					ins := ex.model()
					v = &Violation{Kind: pe.kind, Msg: pe.msg, Inputs: ins, Text: inputText(ins), PC: ex.pcString(600), Obs: ex.evalObs()}
					viol[key] = v
					res.Violations = append(res.Violations, v)
				}
				v.Count++
			case "unsupported":
				res.Unsupported[pe.msg]++
			case "excluded":
				res.Excluded[pe.msg]++
			case "done":
				if witnessEvery > 0 && len(res.Witnesses) < maxW && (res.Ends["done"]-1)%witnessEvery == 0 {
					ins := ex.model()
					res.Witnesses = append(res.Witnesses, Witness{End: "done", Inputs: ins, Obs: ex.evalObs(), Text: inputText(ins), PC: ex.pcString(300), Approx: ex.pathExcl})
				}
			}
		}
		if pe.kind == "solver" {
			res.Unsupported["solver: "+pe.msg]++
		}
		// backtrack
		for len(ex.decisions) > 0 {
			d := ex.decisions[len(ex.decisions)-1]
			sol.Pop()
			adv := false
			func() {
				defer func() {
					if r := recover(); r != nil {
						if st, isT := r.(solverTrouble); isT {
							res.Unsupported["solver: "+st.msg]++
							adv = false
							return
						}
						panic(r)
					}
				}()
				adv = ex.advance(d, ex.domStack[len(ex.decisions)-1])
			}()
			if adv {
				break
			}
			ex.decisions = ex.decisions[:len(ex.decisions)-1]
			ex.domStack = ex.domStack[:len(ex.domStack)-1]
		}
		if len(ex.decisions) == 0 {
			break
		}
		if job.MaxPaths > 0 && res.Paths >= job.MaxPaths {
			res.Truncated = true
			break
		}
		if job.TimeoutS > 0 && time.Since(t0).Seconds() > job.TimeoutS {
			res.Timeout = true
			break
		}
	}
	// unwind solver scopes left by a truncated run
	for sol.depth > 0 {
		sol.Pop()
	}
	for _, n := range ex.forkAt {
		res.Forks += n
	}
	res.Queries, res.Sat, res.Unsat = sol.Queries-q0, sol.SatN-s0, sol.UnsatN-u0
	res.SolverS = (sol.Time - st0).Seconds()
	res.Fast, res.Slow, res.Implied = ex.fastN, ex.slowN, ex.impliedN
	res.ParanoidBad, res.ParanoidN = ex.paranoidBad, ex.paranoidN
	for f := range ex.funcs {
		res.Funcs = append(res.Funcs, f)
	}
	sort.Strings(res.Funcs)
	res.TermPool = poolSize
	if job.ID == "cli" {
		res.ForkAt = ex.forkAt
	}
	return
}

func main() {
	if len(os.Args) < 2 {
		fmt.Fprintln(os.Stderr, "usage: symgo worker|run|tables ...")
		os.Exit(2)
	}
	mode := os.Args[1]
	fs := flag.NewFlagSet(mode, flag.ExitOnError)
	repo := fs.String("repo", "/repo", "repository working tree")
	overlay := fs.String("overlay", "", "comma separated harness/spec source files to overlay into the package")
	solver := fs.String("solver", "z3", "solver binary")
	entry := fs.String("entry", "", "harness function (run)")
	argsS := fs.String("args", "", "comma separated int args (run)")
	safety := fs.Bool("safety", false, "safety mode (blob model for Unicode case mapping)")
	frame := fs.Bool("frame", false, "frame check: writes to shared objects are violations")
	maxPaths := fs.Int("maxpaths", 0, "stop after this many paths")
	noCone := fs.Bool("nocone", false, "disable cone merging")
	noDom := fs.Bool("nodom", false, "disable byte-domain fast path")
	lazy := fs.Bool("lazy", false, "map look-ups as ite terms")
	wEvery := fs.Int("witness", 0, "record a witness every k done paths")
	part := fs.String("part", "", "lo,hi range for the first input byte")
	verbose := fs.Bool("v", false, "verbose")
	prof := fs.String("prof", "", "cpu profile file")
	paranoid := fs.Bool("paranoid", false, "re-decide every byte-domain verdict with z3")
	smtlog := fs.String("smtlog", "", "write every line sent to the solver to this file (for cross-checking with other solvers)")
	fs.Parse(os.Args[2:])
	debug.SetGCPercent(400)
	if *prof != "" {
		f, _ := os.Create(*prof)
		pprof.StartCPUProfile(f)
		defer pprof.StopCPUProfile()
	}

	t0 := time.Now()
	w, err := loadWorld(*repo, strings.Split(*overlay, ","), *solver)
	if err != nil {
		out, _ := json.Marshal(map[string]string{"fatal": err.Error()})
		fmt.Println(string(out))
		os.Exit(2)
	}
	if *smtlog != "" {
		lf, err := os.Create(*smtlog)
		if err == nil {
			defer lf.Close()
			w.sol.log = lf
		}
	}
	loadS := time.Since(t0).Seconds()
	if err := checkUnicodeFacts(); err != nil {
		out, _ := json.Marshal(map[string]string{"fatal": err.Error()})
		fmt.Println(string(out))
		os.Exit(2)
	}
	switch mode {
	case "worker":
		fmt.Printf("{\"ready\":true,\"load_s\":%.2f}\n", loadS)
		sc := bufio.NewScanner(os.Stdin)
		sc.Buffer(make([]byte, 1<<20), 1<<24)
		for sc.Scan() {
			line := strings.TrimSpace(sc.Text())
			if line == "" {
				continue
			}
			var job Job
			if err := json.Unmarshal([]byte(line), &job); err != nil {
				fmt.Printf("{\"error\":%q}\n", err.Error())
				continue
			}
			res := w.runJob(&job)
			out, _ := json.Marshal(res)
			fmt.Println(string(out))
		}
	case "run":
		job := &Job{ID: "cli", Entry: *entry, Safety: *safety, Frame: *frame, MaxPaths: *maxPaths, NoCone: *noCone, NoDom: *noDom, Lazy: *lazy, WitnessEvery: *wEvery, Paranoid: *paranoid}
		if *argsS != "" {
			for _, a := range strings.Split(*argsS, ",") {
				n, _ := strconv.ParseInt(a, 10, 64)
				job.Args = append(job.Args, n)
			}
		}
		if *part != "" {
			p := strings.Split(*part, ",")
			lo, _ := strconv.Atoi(p[0])
			hi, _ := strconv.Atoi(p[1])
			job.Part = []int{lo, hi}
		}
		res := w.runJob(job)
		if *verbose {
			out, _ := json.MarshalIndent(res, "", " ")
			fmt.Println(string(out))
		} else {
			fmt.Printf("entry=%s args=%v load=%.1fs wall=%.2fs paths=%d ends=%v forks=%d\n", res.Entry, res.Args, loadS, res.WallS, res.Paths, res.Ends, res.Forks)
			if res.ParanoidN > 0 {
				fmt.Printf("paranoid: %d byte-domain verdicts re-decided by z3, %d mismatches\n", res.ParanoidN, res.ParanoidBad)
			}
			fmt.Printf("fast=%d slow=%d implied=%d queries=%d sat=%d unsat=%d solver=%.2fs maxcost=%d maxdepth=%d pool=%d endunsat=%d\n", res.Fast, res.Slow, res.Implied, res.Queries, res.Sat, res.Unsat, res.SolverS, res.MaxCost, res.MaxDepth, res.TermPool, res.EndUnsat)
			for _, v := range res.Violations {
				fmt.Printf("  %6d %s: %s   e.g. %s\n", v.Count, v.Kind, v.Msg, v.Text)
			}
			for k, n := range res.Unsupported {
				fmt.Printf("  %6d unsupported: %s\n", n, k)
			}
			for k, n := range res.Excluded {
				fmt.Printf("  %6d excluded: %s\n", n, k)
			}
			for k, n := range res.Writes {
				fmt.Printf("  %6d shared write: %s\n", n, k)
			}
			if len(res.Labels) > 0 {
				fmt.Println("  labels:", res.Labels)
			}
			if res.Error != "" {
				fmt.Println("ERROR:", res.Error)
			}
			type kv struct {
				k string
				v int
			}
			var l []kv
			for k, v := range res.ForkAt {
				l = append(l, kv{k, v})
			}
			sort.Slice(l, func(i, j int) bool { return l[i].v > l[j].v })
			for i, e := range l {
				if i >= 12 {
					break
				}
				fmt.Printf("  fork %6d %s\n", e.v, e.k)
			}
			if res.MaxCostIn != "" {
				fmt.Println("  max cost input:", res.MaxCostIn)
			}
		}
	case "tables":
		dumpTables(w)
	case "audit":
		audit(w)
	default:
		fmt.Fprintln(os.Stderr, "unknown mode", mode)
	}
	w.sol.Close()
}
