package main

import (
	"encoding/json"
	"fmt"
	"go/types"
	"sort"
	"strings"

	"golang.org/x/tools/go/ssa"
)

// audit: flow-insensitive, whole-package check of the encoder's own precondition (DESIGN.md 7, C05 item 2):
// outside init no instruction stores through an address derived from a package-level variable, updates a
// package-level map, or appends/copies into a package-level slice; no goroutines, channels, sync, atomic, unsafe.
// Values derived from globals are propagated through loads, field/index addressing, slicing, phis, conversions and,
// inter-procedurally, through parameters of package functions (fixpoint over static call sites and closures).
func audit(w *World) {
	pkg := w.pkg
	type finding struct {
		Kind string `json:"kind"`
		Fn   string `json:"fn"`
		Pos  string `json:"pos"`
		What string `json:"what"`
	}
	var findings []finding
	ex := &Exec{prog: w.prog}
	var fns []*ssa.Function
	seen := map[*ssa.Function]bool{}
	var add func(f *ssa.Function)
	add = func(f *ssa.Function) {
		if f == nil || seen[f] || f.Blocks == nil {
			return
		}
		seen[f] = true
		fns = append(fns, f)
		for _, a := range f.AnonFuncs {
			add(a)
		}
	}
	for _, m := range pkg.Members {
		switch x := m.(type) {
		case *ssa.Function:
			add(x)
		case *ssa.Type:
			for _, t := range []types.Type{x.Type(), types.NewPointer(x.Type())} {
				ms := w.prog.MethodSets.MethodSet(t)
				for i := 0; i < ms.Len(); i++ {
					add(w.prog.MethodValue(ms.At(i)))
				}
			}
		}
	}
	isHarness := func(f *ssa.Function) bool {
		p := w.prog.Fset.Position(f.Pos()).Filename
		return strings.Contains(p, "zz_verif_")
	}
	tainted := map[ssa.Value]string{} // value -> global it derives from
	changed := true
	taint := func(v ssa.Value, g string) {
		if _, ok := tainted[v]; !ok {
			tainted[v] = g
			changed = true
		}
	}
	refLike := func(t types.Type) bool {
		switch t.Underlying().(type) {
		case *types.Pointer, *types.Slice, *types.Map:
			return true
		}
		return false
	}
	for changed {
		changed = false
		for _, f := range fns {
			if isHarness(f) {
				continue
			}
			for _, b := range f.Blocks {
				for _, in := range b.Instrs {
					switch x := in.(type) {
					case *ssa.UnOp:
						if g, ok := x.X.(*ssa.Global); ok && refLike(x.Type()) {
							taint(x, g.Name())
						} else if g, ok := tainted[x.X]; ok && refLike(x.Type()) {
							taint(x, g)
						}
					case *ssa.FieldAddr:
						if g, ok := x.X.(*ssa.Global); ok {
							taint(x, g.Name())
						} else if g, ok := tainted[x.X]; ok {
							taint(x, g)
						}
					case *ssa.IndexAddr:
						if g, ok := x.X.(*ssa.Global); ok {
							taint(x, g.Name())
						} else if g, ok := tainted[x.X]; ok {
							taint(x, g)
						}
					case *ssa.Slice:
						if g, ok := x.X.(*ssa.Global); ok {
							taint(x, g.Name())
						} else if g, ok := tainted[x.X]; ok && refLike(x.Type()) {
							taint(x, g)
						}
					case *ssa.Phi:
						for _, e := range x.Edges {
							if g, ok := tainted[e]; ok {
								taint(x, g)
							}
						}
					case *ssa.ChangeType:
						if g, ok := tainted[x.X]; ok {
							taint(x, g)
						}
					case *ssa.Call:
						cc := x.Common()
						if callee, ok := cc.Value.(*ssa.Function); ok && callee.Blocks != nil && callee.Pkg == pkg {
							for i, a := range cc.Args {
								if g, ok := tainted[a]; ok && i < len(callee.Params) && refLike(callee.Params[i].Type()) {
									taint(callee.Params[i], g)
								}
								if gl, ok := a.(*ssa.Global); ok && i < len(callee.Params) {
									taint(callee.Params[i], gl.Name())
								}
							}
						}
						if bi, ok := cc.Value.(*ssa.Builtin); ok && bi.Name() == "append" {
							if g, ok := tainted[cc.Args[0]]; ok {
								taint(x, g)
							}
						}
					}
				}
			}
		}
	}
	for _, f := range fns {
		if isHarness(f) || f.Name() == "init" || strings.HasPrefix(f.Name(), "init#") || strings.HasPrefix(f.Name(), "init$") {
			continue
		}
		// functions only reachable from init (table builders) are excluded by name convention: they are called from init only
		for _, b := range f.Blocks {
			for _, in := range b.Instrs {
				pos := ex.pos(in.Pos())
				switch x := in.(type) {
				case *ssa.Store:
					if g, ok := x.Addr.(*ssa.Global); ok {
						findings = append(findings, finding{"store", f.String(), pos, "store to package variable " + g.Name()})
					} else if g, ok := tainted[x.Addr]; ok {
						findings = append(findings, finding{"store", f.String(), pos, "store through an address derived from package variable " + g})
					}
				case *ssa.MapUpdate:
					if g, ok := tainted[x.Map]; ok {
						findings = append(findings, finding{"mapupdate", f.String(), pos, "update of package-level map " + g})
					}
				case *ssa.Go:
					findings = append(findings, finding{"go", f.String(), pos, "go statement"})
				case *ssa.Send, *ssa.Select:
					findings = append(findings, finding{"chan", f.String(), pos, "channel operation"})
				case *ssa.Call:
					cc := x.Common()
					if bi, ok := cc.Value.(*ssa.Builtin); ok && (bi.Name() == "append" || bi.Name() == "copy") {
						if g, ok := tainted[cc.Args[0]]; ok {
							findings = append(findings, finding{bi.Name(), f.String(), pos, bi.Name() + " into a slice derived from package variable " + g + " (writes the shared backing array when capacity allows)"})
						}
					}
					if callee, ok := cc.Value.(*ssa.Function); ok && callee.Pkg != nil {
						pp := callee.Pkg.Pkg.Path()
						if pp == "sync" || pp == "sync/atomic" || pp == "unsafe" {
							findings = append(findings, finding{"sync", f.String(), pos, "call to " + callee.String()})
						}
					}
				}
			}
		}
	}
	// table builders are called only from init: drop findings in functions whose every caller is init
	callers := map[*ssa.Function]map[*ssa.Function]bool{}
	for _, f := range fns {
		for _, b := range f.Blocks {
			for _, in := range b.Instrs {
				if c, ok := in.(ssa.CallInstruction); ok {
					if callee, ok := c.Common().Value.(*ssa.Function); ok {
						if callers[callee] == nil {
							callers[callee] = map[*ssa.Function]bool{}
						}
						callers[callee][f] = true
					}
				}
			}
		}
	}
	var initOnly func(f *ssa.Function, depth int) bool
	initOnly = func(f *ssa.Function, depth int) bool {
		if f.Name() == "init" || strings.HasPrefix(f.Name(), "init#") {
			return true
		}
		cs := callers[f]
		if len(cs) == 0 || depth > 6 {
			return false
		}
		for c := range cs {
			if !initOnly(c, depth+1) {
				return false
			}
		}
		return true
	}
	byName := map[string]*ssa.Function{}
	for _, f := range fns {
		byName[f.String()] = f
	}
	var kept []finding
	for _, fd := range findings {
		if f := byName[fd.Fn]; f != nil && initOnly(f, 0) {
			continue
		}
		kept = append(kept, fd)
	}
	sort.Slice(kept, func(i, j int) bool { return kept[i].Pos < kept[j].Pos })
	out, _ := json.Marshal(map[string]interface{}{"functions": len(fns), "findings": kept})
	fmt.Println(string(out))
}
